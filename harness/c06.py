#!/venv/bin/python
"""C06 — draw() leaves the picture in place and the cursor on the line below it.

Also the shared machinery of C07 (harness/c07.py imports it): a recording / fault-injecting tty
stream, a fake termios, virtual sleep, scripted new-API renderable, real old-API images on
synthetic animated GIFs, and the translation of a real draw() into the model's request line.
"""
from __future__ import annotations

import io
import os
import random
import sys

sys.path.insert(0, os.path.dirname(os.path.abspath(__file__)))
from common import framework as fw  # noqa: E402
from common.framework import Case, Failure, Property  # noqa: E402

# term_image is imported while `sys.stdout` is a throw-away stream: whatever the package binds to `sys.stdout` /
# `sys.stdout.write` at import time (module-level aliases) keeps pointing THERE, not at the stream the harness assigns
# to `sys.stdout` right before each draw() — exactly the situation of an application that redirects stdout later
IMPORT_TIME_STDOUT = io.StringIO()
_real_stdout, sys.stdout = sys.stdout, IMPORT_TIME_STDOUT
try:
    from common import env  # noqa: E402
    import term_image.image  # noqa: E402,F401
finally:
    sys.stdout = _real_stdout
from common import tokenizer as tk  # noqa: E402
from common.ctlgen import gen_ctl, lean_str  # noqa: E402
from common import lexcheck  # noqa: E402

from PIL import Image  # noqa: E402
import term_image  # noqa: E402
import term_image._ctlseqs as ctl  # noqa: E402
import term_image.image.common as old_common  # noqa: E402
import term_image.image.kitty as old_kitty  # noqa: E402
import term_image.image.iterm2 as old_iterm2  # noqa: E402
import term_image.renderable._renderable as new_mod  # noqa: E402
import term_image.render._iterator as iter_mod  # noqa: E402
from term_image.geometry import Size  # noqa: E402
from term_image.image import BlockImage, ITerm2Image, KittyImage  # noqa: E402
from term_image.image import Size as DynSize  # noqa: E402
from term_image.padding import AlignedPadding, ExactPadding, HAlign, VAlign  # noqa: E402
from term_image.render import RenderIterator  # noqa: E402
from term_image.renderable import ArgsNamespace, Frame, FrameCount, Renderable, RenderArgs  # noqa: E402
from term_image.padding import Padding  # noqa: E402

DRIVER = "drv_c06"

# ------------------------------------------------------------------------------------------
# instrumentation (from outside: module attributes only)


class Boom(Exception):
    """the injected ordinary exception"""


class Injector:
    """counts the effectful actions (write, flush, sleep, render, tcsetattr) and makes the k-th fail"""

    def __init__(self):
        self.reset(None)

    def reset(self, plan):
        self.n = 0
        self.plan = plan  # None | {"k": int, "off": int, "exc": "kbd"|"err"}
        self.fired = None  # (kind, full string or None, delivered chars)
        self.flush_as_write = False
        self.log = []  # kinds, in order

    def exc(self):
        return KeyboardInterrupt() if self.plan["exc"] == "kbd" else Boom("injected")

    def tick(self, kind, payload=None):
        """returns None to proceed, or the number of characters to deliver before raising"""
        i = self.n
        self.n += 1
        self.log.append(kind)
        if self.plan is not None and self.fired is None and i == self.plan["k"]:
            off = self.plan["off"]
            if payload is not None:
                # off >= len: ALL the data is delivered, then the exception arrives (Ctrl-C right after the
                # write); off < 0: counted from the end (-1 = all but the last character)
                off = max(len(payload) + off, 0) if off < 0 else min(off, len(payload))
            self.fired = (kind, payload, off)
            return off
        return None


INJ = Injector()


class Stream(io.TextIOBase):
    """sys.stdout stand-in: records every write call separately"""

    def __init__(self, tty: bool, buffered: bool = False):
        self.tty = tty
        self.segments: list[str] = []  # delivered text per write call (buffered: per flush)
        self.cut = None  # (index into segments, full intended string)
        # a buffering stream: write() only buffers, flush() delivers; an interrupted flush delivers a prefix of
        # the buffer and the rest is lost
        self.buffered = buffered
        self.buf = ""

    def isatty(self):
        return self.tty

    def fileno(self):
        return 99

    def writable(self):
        return True

    def write(self, s):
        if not s:
            return 0
        if self.buffered:
            if INJ.tick("write", "") is not None:  # nothing of an interrupted buffered write reaches the terminal
                raise INJ.exc()
            self.buf += s
            return len(s)
        d = INJ.tick("write", s)
        if d is not None:
            self.segments.append(s[:d])
            self.cut = (len(self.segments) - 1, s)
            raise INJ.exc()
        self.segments.append(s)
        return len(s)

    def flush(self):
        if self.buffered:
            buf, self.buf = self.buf, ""
            d = INJ.tick("flush", buf)
            if d is not None:
                self.segments.append(buf[:d])
                self.cut = (len(self.segments) - 1, buf)
                # seen from the terminal this is the interrupted write of `buf`: the model (an unbuffered stream)
                # is given the fault at the write that filled the buffer
                INJ.fired = ("write", buf, d)
                INJ.flush_as_write = True
                raise INJ.exc()
            if buf:
                self.segments.append(buf)
            return
        if INJ.tick("flush") is not None:
            raise INJ.exc()

    def drain(self):
        """what is still buffered when the process goes on (delivered by a later flush / at exit)"""
        if self.buf:
            self.segments.append(self.buf)
            self.buf = ""

    def getvalue(self):
        return "".join(self.segments)


class FakeTermios:
    ECHO = 0o10
    TCSANOW = 0
    TCSAFLUSH = 2
    error = OSError

    ICANON = 0o2
    VARIANTS = ("default", "echo-off", "raw", "odd-cc", "noecho-raw")

    def __init__(self, variant="default"):
        """`variant`: the terminal attributes in force when draw() is called — a cooked tty, a TUI that has
        switched ECHO off, a non-canonical one, odd VMIN/VTIME"""
        lflag = 0o105073
        cc = [b"\x03", b"\x1c", b"\x7f", b"\x15", b"\x04", 0, 1]  # … VTIME, VMIN
        if variant in ("echo-off", "noecho-raw"):
            lflag &= ~self.ECHO
        if variant in ("raw", "noecho-raw"):
            lflag &= ~self.ICANON
        if variant in ("odd-cc", "noecho-raw"):
            cc[5], cc[6] = 7, 0
        self.initial = [0o2402, 0o5, 0o277, lflag, 15, 15, cc]
        self.attrs = [x if not isinstance(x, list) else list(x) for x in self.initial]

    def tcgetattr(self, fd):
        return [x if not isinstance(x, list) else list(x) for x in self.attrs]

    def tcsetattr(self, fd, when, attrs):
        d = INJ.tick("tcset")
        if d is not None:
            if d > 0:
                self.attrs = [x if not isinstance(x, list) else list(x) for x in attrs]
            raise INJ.exc()
        self.attrs = [x if not isinstance(x, list) else list(x) for x in attrs]

    def summary(self):
        """`7,1` = exactly the initial attributes. First field: everything but ECHO equal to the initial value; second:
        the ECHO bit equal to its initial value (the model is parametric in the initial attributes: its `(7, true)`
        stands for whatever was in force)"""
        a, b = self.attrs, self.initial
        same = a[:3] == b[:3] and a[4:] == b[4:] and (a[3] & ~self.ECHO) == (b[3] & ~self.ECHO)
        return f"{7 if same else 'X'},{int((a[3] & self.ECHO) == (b[3] & self.ECHO))}"

    def restored(self) -> bool:
        return self.attrs == self.initial


def fake_sleep(_x):
    if INJ.tick("sleep") is not None:
        raise INJ.exc()


class FakeTime:
    t = 0.0

    @classmethod
    def time(cls):
        cls.t += 0.001
        return cls.t

    sleep = staticmethod(fake_sleep)


new_mod.sleep = fake_sleep
old_common.time = FakeTime
new_mod.get_terminal_size = env.get_terminal_size
iter_mod.get_terminal_size = env.get_terminal_size
old_common.get_terminal_size = env.get_terminal_size
# KittyImage.clear() writes through the import-time alias `_stdout_write = sys.stdout.write` (kitty.py); the animation's
# `_clear_frame()` (kitty <= 0.25.0) goes through it. It is re-pointed to the current `sys.stdout` here so that the frame
# clearing reaches the recorded stream (see docs/C07.md, "observation": with a re-bound sys.stdout the real alias sends
# the deletes to the old stream). Nothing else is re-pointed: iterm2's alias stays what the import made it.
old_kitty._stdout_write = lambda s: sys.stdout.write(s)

# ------------------------------------------------------------------------------------------
# frames


def make_gif(n: int, w: int, h: int, seed: int, kinds=None) -> Image.Image:
    """`kinds[i]` = "noise": frame i is incompressible (its kitty transmission spans several chunks),
    "flat": uniform (one small unchunked transmission); default: nearly flat"""
    rng = random.Random(seed)
    frames = []
    for i in range(n):
        kind = kinds[i] if kinds else None
        if kind == "noise":
            frames.append(Image.frombytes("RGB", (w, h), bytes(rng.randrange(256) for _ in range(w * h * 3))))
            continue
        if kind == "alpha":  # partly transparent: what is under it shows through
            im = Image.new("RGBA", (w, h), (rng.randrange(256), 40 * i % 256, rng.randrange(256), 255))
            px = im.load()
            for x in range(w):
                for y in range(h):
                    if (x + y + i) % 3 == 0:
                        px[x, y] = (0, 0, 0, 0)
            frames.append(im)
            continue
        im = Image.new("RGB", (w, h), (rng.randrange(256), rng.randrange(256), 40 * i % 256))
        px = im.load()
        for _ in range(0 if kind == "flat" else 3):
            px[rng.randrange(w), rng.randrange(h)] = (rng.randrange(256), 255 - 30 * i % 256, rng.randrange(256))
        frames.append(im)
    b = io.BytesIO()
    if n == 1:
        frames[0].save(b, format="PNG")
    else:
        frames[0].save(b, format="GIF", save_all=True, append_images=frames[1:], duration=20, loop=0, disposal=2)
    b.seek(0)
    return Image.open(b)


STYLES = {"block": BlockImage, "kitty": KittyImage, "iterm2": ITerm2Image}


def gif_for(d) -> Image.Image:
    side = d.get("px", 6)
    return make_gif(max(d["nframes"], 1), side, side, d["iseed"], d.get("frame_kinds"))


def setup_style(d):
    """terminal identity and the per-style class state the draw path reads"""
    env.reset_env()
    term = d.get("term", "")
    env.set_env(term_size=(d["W"], d["H"]), cell_size=tuple(d.get("cell", (5, 10))), name=term)
    KittyImage._KITTY_VERSION = tuple(d.get("kitty_version") or ())
    return STYLES[d["style"]]


def style_kwargs(d):
    kw = {}
    if d["style"] == "kitty":
        kw = {"method": d["method"], "mix": d.get("mix", False), "compress": d.get("compress", 4)}
        if d.get("z_index") is not None:
            kw["z_index"] = d["z_index"]
        if d.get("blend") is not None:
            kw["blend"] = d["blend"]
    elif d["style"] == "iterm2":
        kw = {"method": d["method"], "mix": d.get("mix", False)}
    return kw


def lines_wire(s: str) -> str:
    """a render string → `<nlines> (<ntoks> toks…)…`"""
    ls = tk.split_lines(tk.tokenize(s))
    return " ".join([str(len(ls))] + [tk.wire(l) for l in ls])


def toks_wire(s: str) -> str:
    return tk.wire(tk.tokenize(s))


def frames_wire(frames) -> str:
    return " ".join([str(len(frames))] + [f"{int(r)} {lines_wire(s)}" for r, s in frames])


# ------------------------------------------------------------------------------------------
# new API: a renderable with scripted frames (real renders of the three styles, or plain text)


class Scripted(Renderable):
    def __init__(self, frames, size, clear="", hook=""):
        super().__init__(len(frames), 1)
        self.frames, self.size_, self.clear, self.hook = frames, Size(*size), clear, hook
        self.events = []  # ("render", n)
        self.data = None

    def _get_render_size_(self):
        return self.size_

    def _get_render_data_(self, *, iteration):
        self.data = super()._get_render_data_(iteration=iteration)
        return self.data

    def _render_(self, render_data, render_args):
        d = render_data[Renderable]
        n = d.frame_offset
        self.events.append(n)
        if INJ.tick("render") is not None:
            raise INJ.exc()
        return Frame(n, 1, d.size, self.frames[n])

    def _clear_frame_(self, render_data, render_args, cursor_x, output):
        if self.clear:
            output.write(self.clear)

    def _handle_interrupted_draw_(self, render_data, render_args, output):
        # as a real subclass would: its own render arguments decide what to write (they are the *normalized*
        # arguments — `RenderArgs` of this very class — whatever draw() was given)
        render_args[Scripted].marker
        if self.hook:
            output.write(self.hook)
            output.flush()


class ScriptedArgs(ArgsNamespace, render_cls=Scripted):
    marker: int = 0


class ScriptedIndef(Scripted):
    """INDEFINITE frame count: a finite stream of frames that all report number 0 (as the API prescribes), ended by
    StopIteration; never cached by RenderIterator"""

    def __init__(self, frames, size, clear="", hook=""):
        Renderable.__init__(self, FrameCount.INDEFINITE, 1)
        self.frames, self.size_, self.clear, self.hook = frames, Size(*size), clear, hook
        self.events = []
        self.data = None
        self.pos = 0

    def _get_render_data_(self, *, iteration):
        self.pos = 0
        return super()._get_render_data_(iteration=iteration)

    def _render_(self, render_data, render_args):
        d = render_data[Renderable]
        if d.iteration and self.pos >= len(self.frames):
            raise StopIteration  # the stream is exhausted (not an action: nothing is rendered)
        n = self.pos
        if d.iteration:
            self.pos += 1
        self.events.append(n)
        if INJ.tick("render") is not None:
            raise INJ.exc()
        return Frame(0, 1, d.size, self.frames[n])


class CustomPadding(Padding):
    """a third-party Padding subclass: fixed dimensions"""

    def __init__(self, fill=" ", dims=(0, 0, 0, 0)):
        super().__init__(fill)
        object.__setattr__(self, "dims", tuple(dims))

    def _get_exact_dimensions_(self, render_size):
        return self.dims


def source_frames(d):
    """frame strings for the scripted renderable: real renders of an animated image"""
    cls = setup_style(d)
    im = cls(gif_for(d))
    env.set_env(term_size=(200, 100))
    im.set_size(width=d["cols"]) if d["by_width"] else im.set_size(height=d["lines"])
    out = []
    for n in range(max(d["nframes"], 1)):
        if d["nframes"] > 1:
            im.seek(n)
        out.append(im._renderer(im._render_image, 0.4, frame=d["nframes"] > 1, **style_kwargs(d)))
    size = tuple(im.rendered_size)
    env.set_env(term_size=(d["W"], d["H"]))
    return out, size


def make_padding(d, size):
    p = d["pad"]
    if p[0] == "exact":
        return ExactPadding(*p[1:5], fill=p[5])
    if p[0] == "custom":
        return CustomPadding(p[5], tuple(p[1:5]))
    return AlignedPadding(p[1], p[2], HAlign[p[3]], VAlign[p[4]], fill=p[5])


def fill_wire(fill: str) -> str:
    return "none" if fill == "" else tk.tokenize(fill)[0].wire


class RunResult:
    pass


def clear_string(d, size, pad_left) -> str:
    """what the tracked renderable's `_clear_frame_` writes. `clear_mode`: a REAL hook following the documented contract
    (called with the cursor at the top-left cell of the render region, leaves it there, does not scroll) —
    "erase": a text renderable erasing the previous frame (ECH per line); "delz": a graphics renderable deleting the
    previous frame's placements by z-index. Otherwise the literal `clear` string of the case (C07)."""
    mode = d.get("clear_mode")
    w, h = size
    if mode == "erase":
        nl = "\n" + ctl.cursor_forward(pad_left)
        return (ctl.ERASE_CHARS % w) + (nl + ctl.ERASE_CHARS % w) * (h - 1) + "\r" + ctl.cursor_up(h - 1) + ctl.cursor_forward(pad_left)
    if mode == "delz":
        return ctl.KITTY_DELETE_Z_INDEX % 0
    return d.get("clear", "")


def run_new(d) -> RunResult:
    frames, size = source_frames(d)
    r = RunResult()
    r.size = size
    padding = make_padding(d, size)
    l0 = (padding.resolve(os.terminal_size((d["W"], d["H"]))) if isinstance(padding, AlignedPadding)
          else padding)._get_exact_dimensions_(Size(*size))[0]
    clear = clear_string(d, size, l0)
    rend = (ScriptedIndef if d.get("indefinite") else Scripted)(frames, size, clear=clear, hook=d.get("hook", ""))
    rargs = {None: None, "parent": RenderArgs(Renderable), "exact": RenderArgs(type(rend))}[d.get("rargs")]
    ft = FakeTermios(d.get("tattr", "default"))
    new_mod.termios = ft
    out = Stream(d["tty"], buffered=bool(d.get("buffered")))
    closes = []
    yielded = []
    orig_close, orig_next = RenderIterator.close, RenderIterator.__next__

    def close(self):
        closes.append(1)
        return orig_close(self)

    def nxt(self):
        before = len(rend.events)
        fr = orig_next(self)
        yielded.append((len(rend.events) > before, fr.number))
        return fr

    RenderIterator.close, RenderIterator.__next__ = close, nxt
    INJ.reset(d.get("plan"))
    seek0 = rend.tell()
    so = sys.stdout
    sys.stdout = out
    try:
        try:
            rend.draw(rargs, padding=padding, animate=d["animate"], loops=d["loops"], cache=d["cache"],
                      check_size=d["check_size"], allow_scroll=d["allow_scroll"],
                      hide_cursor=d["hide"], echo_input=d["echo"])
            r.outcome = "returned"
        except KeyboardInterrupt:
            r.outcome = "raised:kbd"
        except Boom:
            r.outcome = "raised:err"
        except Exception as e:
            r.outcome = "err " + type(e).__name__
    finally:
        sys.stdout = so
        r.delivered = out.getvalue()  # what had REACHED the terminal when draw() returned / raised
        out.drain()
        RenderIterator.close, RenderIterator.__next__ = orig_close, orig_next
    r.stream, r.ft = out, ft
    r.nactions, r.log = INJ.n, list(INJ.log)
    animation = d["animate"] and d["nframes"] > 1
    if animation and d.get("indefinite"):  # never cached, all numbered 0: the i-th frame yielded is the i-th of the stream
        r.frames = [(True, frames[i]) for i in range(len(yielded))]
        if INJ.fired and INJ.fired[0] == "render" and len(rend.events) > len(yielded):
            r.frames.append((True, frames[rend.events[-1]]))
    elif animation:
        r.frames = [(rd, frames[n]) for rd, n in yielded]
        if INJ.fired and INJ.fired[0] == "render" and len(rend.events) > sum(1 for rd, _ in yielded if rd):
            r.frames.append((True, frames[rend.events[-1]]))  # the frame whose render raised
    else:
        r.frames = [(True, frames[rend.tell()])] if rend.events else []
    r.finalized = int(bool(rend.data is not None and rend.data.finalized))
    r.iter_closed = int(bool(closes))
    r.seek_ok = int(rend.tell() == seek0)
    r.size_ok = 1
    l, t, rr, b = padding.resolve(os.terminal_size((d["W"], d["H"])))._get_exact_dimensions_(Size(*size)) \
        if isinstance(padding, AlignedPadding) else padding._get_exact_dimensions_(Size(*size))
    r.pad = (l, t, rr, b)
    r.cfg = (f"{size[0]} {size[1]} {l} {t} {rr} {b} {fill_wire(padding.fill)} {int(d['tty'])} {int(d['hide'])} "
             f"{int(d['echo'])} {int(animation)} {int(d['check_size'])} {int(d['allow_scroll'])} {d['W']} {d['H']} "
             f"{toks_wire(clear)} {toks_wire(d.get('hook', ''))}")
    r.box = (l + size[0] + rr, t + size[1] + b)
    r.inner = (t, l, size[0], size[1])
    return r


# ------------------------------------------------------------------------------------------
# old API: the real image classes


def old_hook(cls) -> str:
    out = Stream(True)
    so, sys.stdout = sys.stdout, out
    inj = INJ.plan, INJ.n, INJ.fired, INJ.log
    INJ.reset(None)
    try:
        try:
            cls._handle_interrupted_draw()
        except TypeError:  # not a static/class method (any more): call it on an instance
            cls(Image.new("RGB", (2, 2)))._handle_interrupted_draw()
    finally:
        sys.stdout = so
        INJ.plan, INJ.n, INJ.fired, INJ.log = inj
    return out.getvalue()


def documented_hook(style: str) -> str:
    """what `_handle_interrupted_draw` is documented to print, whatever was drawn before: kitty ends the last
    command (ST, twice for Konsole) and sends the "last chunk"; iterm2 ends the last transmission. The model is
    given THIS (the translator separately pins the live method's output in Generated.lean), so an implementation
    that prints less on some path shows up as a correspondence mismatch with a concrete input."""
    return {"kitty": ctl.ST * 2 + ctl.KITTY_END_CHUNKED, "iterm2": ctl.ST * 2}.get(style, "")


_MISSING = object()


class pil_raiser:
    """while active, the n-th call of PIL.Image.Image.{convert, resize, getdata, tobytes} counts as the (faulted)
    render action and raises the injected exception from inside Pillow"""
    NAMES = ("convert", "resize", "getdata", "tobytes")

    def __init__(self, nth):
        self.nth, self.calls, self.saved = nth, 0, {}

    def __enter__(self):
        for name in self.NAMES:
            orig = getattr(Image.Image, name)
            self.saved[name] = orig

            def patched(img, *a, _orig=orig, **k):
                self.calls += 1
                if self.calls == self.nth and INJ.fired is None and INJ.tick("render") is not None:
                    raise INJ.exc()
                return _orig(img, *a, **k)

            setattr(Image.Image, name, patched)
        return self

    def __exit__(self, *exc):
        for name, orig in self.saved.items():
            setattr(Image.Image, name, orig)
        return False


def fresh_app_subclass(d):
    """an application subclass of KittyImage in a FRESH support state: the base class has never been probed; the
    terminal's identity reaches the subclass through `is_supported()` called on the subclass (fake query layer).
    Returns (subclass, restore)."""
    names = ("_supported", "_KITTY_VERSION", "_TERM", "_TERM_VERSION")
    saved = {n: KittyImage.__dict__.get(n, _MISSING) for n in names}
    saved_q = old_kitty.query_terminal
    saved_nv = env.state["name_version"]
    KittyImage._supported, KittyImage._KITTY_VERSION, KittyImage._TERM, KittyImage._TERM_VERSION = None, (), "", ""
    env.state["name_version"] = ("kitty", ".".join(map(str, d["kitty_version"])))
    old_kitty.query_terminal = lambda *a, **k: b"\x1b_Gi=31;OK\x1b\\\x1b[?62;c"
    app = type("App", (KittyImage,), {})
    assert app.is_supported() and app._KITTY_VERSION == tuple(d["kitty_version"]) and KittyImage._KITTY_VERSION == ()

    def restore():
        for n, v in saved.items():
            if v is _MISSING:
                if n in KittyImage.__dict__:
                    delattr(KittyImage, n)
            else:
                setattr(KittyImage, n, v)
        old_kitty.query_terminal = saved_q
        env.state["name_version"] = saved_nv

    return app, restore


def run_old(d) -> RunResult:
    cls = setup_style(d)
    restore_cls = None
    if d.get("subclass") and d["style"] == "kitty" and d.get("kitty_version"):
        cls, restore_cls = fresh_app_subclass(d)
    try:
        return _run_old(d, cls)
    finally:
        if restore_cls:
            restore_cls()


def _run_old(d, cls) -> RunResult:
    r = RunResult()
    im = cls(gif_for(d))
    if d.get("dynamic"):
        im.size = DynSize.FIT
    else:
        env.set_env(term_size=(200, 100))
        im.set_size(width=d["cols"]) if d["by_width"] else im.set_size(height=d["lines"])
        env.set_env(term_size=(d["W"], d["H"]))
    if d["nframes"] > 1 and d.get("start_frame"):
        im.seek(d["start_frame"])
    size0, seek0 = im._size, im.tell()
    raws, sizes, state = {}, [], {"last": None}
    orig_render = im._render_image

    def render_image(img, alpha, *a, **k):
        if d.get("pil_fault") and INJ.plan is not None and INJ.fired is None and INJ.n == INJ.plan["k"]:
            # this render is the interrupted action and the exception arrives INSIDE it: from Pillow's
            # convert / resize / getdata / tobytes, at the `pil_fault`-th such call of this render
            with pil_raiser(d["pil_fault"]):
                s = orig_render(img, alpha, *a, **k)
        else:
            s = orig_render(img, alpha, *a, **k)
        sizes.append(tuple(im.rendered_size))
        state["last"] = s
        if INJ.tick("render") is not None:
            raise INJ.exc()
        return s

    im._render_image = render_image
    yielded = []
    orig_animate = old_common.ImageIterator._animate
    closes = []
    orig_close = old_common.ImageIterator.close

    def animate(self, img, alpha, fmt, style_args):
        gen = orig_animate(self, img, alpha, fmt, style_args)
        sent = None
        while True:
            state["last"] = None
            try:
                fr = gen.send(sent)
            except StopIteration:
                return
            n = self._image._seek_position
            if state["last"] is not None:
                raws[n] = state["last"]
            yielded.append((state["last"] is not None, raws[n]))
            sent = yield fr

    def close(self):
        closes.append(1)
        return orig_close(self)

    old_common.ImageIterator._animate, old_common.ImageIterator.close = animate, close
    out = Stream(d["tty"])
    INJ.reset(d.get("plan"))
    so = sys.stdout
    sys.stdout = out
    kw = style_kwargs(d)
    try:
        try:
            im.draw(d["h_align"], d["pad_width"], d["v_align"], d["pad_height"], 0.4, animate=d["animate"],
                    repeat=d["loops"], cached=d["cache"], scroll=d["allow_scroll"], check_size=d["check_size"], **kw)
            r.outcome = "returned"
        except KeyboardInterrupt:
            r.outcome = "raised:kbd"
        except Boom:
            r.outcome = "raised:err"
        except Exception as e:
            r.outcome = "err " + type(e).__name__
    finally:
        sys.stdout = so
        old_common.ImageIterator._animate, old_common.ImageIterator.close = orig_animate, orig_close
    r.stream, r.ft = out, None
    r.nactions, r.log = INJ.n, list(INJ.log)
    animation = d["animate"] and d["nframes"] > 1
    if animation:
        r.frames = list(yielded)
        if INJ.fired and INJ.fired[0] == "render":
            r.frames.append((True, state["last"] or ""))  # "" when the exception arrived inside the render
        if not r.frames:  # interrupted before the first frame was rendered: the model needs a (never written) frame
            r.frames = [(True, "")]
    else:
        r.frames = [(True, state["last"])] if state["last"] is not None else []
        if not r.frames and INJ.fired and INJ.fired[0] == "render":
            r.frames = [(True, "")]  # interrupted inside the render: the model needs a (never written) frame
    r.finalized = 0
    r.iter_closed = int(bool(closes))
    r.seek_ok = int(im.tell() == seek0)
    r.size_ok = int(im._size == size0)
    size = sizes[0] if sizes else tuple(im.rendered_size)
    r.size = size
    pre = int(d["style"] == "iterm2" and d.get("term") == "wezterm" and not d.get("mix", False) and animation)
    clear = ""
    kv = tuple(d.get("kitty_version") or ())
    if d["style"] == "kitty" and animation and kv and kv <= (0, 25, 0):
        clear = ctl.KITTY_DELETE_Z_INDEX % -(1 << 31)
    hal = d["h_align"] or "|"
    val = d["v_align"] or "-"
    r.cfg = (f"{size[0]} {size[1]} {hal} {d['pad_width']} {val} {d['pad_height']} {int(not d.get('dynamic'))} "
             f"{int(d['tty'])} {int(animation)} {int(d['allow_scroll'])} {int(d['check_size'])} {d['W']} {d['H']} "
             f"{toks_wire(clear)} {pre} {toks_wire(documented_hook(d['style']))}")
    rw = d["pad_width"] if d["pad_width"] > 0 else max(d["W"] + d["pad_width"], 1)
    rh = d["pad_height"] if d["pad_height"] > 0 else max(d["H"] + d["pad_height"], 1)
    r.box = (max(rw, size[0]), max(rh, size[1]))
    r.inner = None
    return r


# ------------------------------------------------------------------------------------------
# result / request strings


def plan_wire(r: RunResult, plan) -> str:
    """the model's fault plan `some k j d exc`: complete tokens delivered + characters of the cut one"""
    if plan is None:
        return "none"
    j = dd = 0
    fired = INJ.fired
    if fired is not None:
        kind, payload, off = fired
        if kind == "write":
            acc = 0
            for t in tk.tokenize(payload):
                if acc + len(t.span) <= off:
                    acc += len(t.span)
                    j += 1
                else:
                    dd = off - acc
                    break
        else:
            dd = off
    k = plan["k"] - (1 if INJ.flush_as_write else 0)
    return f"some {k} {j} {dd} {plan['exc']}"


def items_of(r: RunResult) -> list[str]:
    items = []
    for i, seg in enumerate(r.stream.segments):
        if r.stream.cut and r.stream.cut[0] == i:
            full = r.stream.cut[1]
            acc = 0
            for t in tk.tokenize(full):
                if acc + len(t.span) <= len(seg):
                    items.append(t.wire)
                    acc += len(t.span)
                else:
                    if len(seg) > acc:
                        items.append(f"cut:{t.wire}:{len(seg) - acc}")
                    break
        else:
            items += [t.wire for t in tk.tokenize(seg)]
    return items


def result_string(r: RunResult) -> str:
    if r.outcome.startswith("err "):
        return r.outcome
    attrs = r.ft.summary() if r.ft is not None else "7,1"
    try:
        items = items_of(r)
    except tk.TokenizeError:  # a sequence the library is not known to write: the oracle deals with it
        items = ["?untokenizable"]
    return (f"ok {r.outcome} {attrs} {r.finalized} {r.iter_closed} {r.seek_ok} {r.size_ok} "
            + " ".join([str(len(items))] + items))


def request_line(d, r: RunResult) -> str:
    return f"{d['api']}.trace {r.cfg} {plan_wire(r, d.get('plan'))} {frames_wire(r.frames)}"


def run_case(d) -> tuple[RunResult, str, str]:
    r = run_new(d) if d["api"] == "new" else run_old(d)
    return r, request_line(d, r), result_string(r)


# ------------------------------------------------------------------------------------------
# generator


def random_config(rng: random.Random, tier: str, api=None) -> dict:
    big = tier == "thorough"
    api = api or rng.choice(["new", "old"])
    style = rng.choice(["block", "block", "kitty", "iterm2"])
    d = {"api": api, "style": style, "iseed": rng.randrange(1 << 30)}
    d["nframes"] = rng.choice([1, 2, 2, 3, 4] + ([5] if big else []))
    d["loops"] = rng.choice([1, 1, 2, 3])
    d["cache"] = rng.choice([True, False, 2])
    d["animate"] = rng.random() < 0.85
    d["tty"] = rng.random() < 0.8
    d["hide"] = rng.random() < 0.8
    d["echo"] = rng.random() < 0.3
    d["check_size"] = rng.random() < 0.8
    d["allow_scroll"] = rng.random() < 0.3
    d["cols"] = rng.randrange(1, 9)
    d["lines"] = rng.choice([1, 1, 2, 3, 4, 5])
    d["by_width"] = rng.random() < 0.4
    if style == "kitty":
        d["method"] = rng.choice(["lines", "whole"])
        d["term"] = rng.choice(["kitty", "konsole"])
        d["kitty_version"] = rng.choice([[0, 25, 0], [0, 30, 1], [0, 20, 0]]) if d["term"] == "kitty" else []
        d["mix"] = rng.random() < 0.3
        if api == "old":  # style arguments given by the caller of draw()
            d["z_index"] = rng.choice([None, None, 0, 5, -7, 2**31 - 1])
            d["compress"] = rng.choice([4, 0, 9])
    elif style == "iterm2":
        d["method"] = rng.choice(["lines", "whole"])
        d["term"] = rng.choice(["iterm2", "wezterm", "wezterm", "konsole"])
        d["mix"] = rng.random() < 0.3
    else:
        d["term"] = rng.choice(["", "kitty"])
    if api == "new":
        d["rargs"] = rng.choice([None, None, "parent", "exact"])  # what draw() is given as `render_args`
        # a renderable whose `_clear_frame_` is real (see `clear_string`)
        d["clear_mode"] = rng.choice({"block": [None, "erase", "erase"], "kitty": [None, "delz", "delz"]}.get(style, [None]))
        if d["nframes"] >= 3 and rng.random() < 0.25:
            d.update(indefinite=True, loops=-1, cache=100)
    return d


def finish_geometry(rng: random.Random, d: dict, rel=None):
    """terminal size and padding around the render size: from exactly-fits to one-too-small"""
    _, size = source_frames({**d, "W": 200, "H": 100})
    w, h = size
    if d["api"] == "new":
        kind = rng.choice(["exact", "exact", "aligned", "aligned", "none"])
        fill = rng.choice([" ", " ", "#", ""])
        if kind == "exact":
            l, t, rr, b = (rng.choice([0, 0, 1, 2, 3]) for _ in range(4))
            d["pad"] = ["exact", l, t, rr, b, fill]
            bw, bh = l + w + rr, t + h + b
        elif kind == "aligned":
            pw, ph = w + rng.choice([-1, 0, 1, 2, 5]), h + rng.choice([-1, 0, 1, 2, 3, 4])
            pw, ph = max(pw, 1), max(ph, 1)
            d["pad"] = ["aligned", pw, ph, rng.choice(["LEFT", "CENTER", "RIGHT"]),
                        rng.choice(["TOP", "MIDDLE", "BOTTOM"]), fill]
            bw, bh = max(pw, w), max(ph, h)
        else:
            d["pad"] = ["exact", 0, 0, 0, 0, fill]
            bw, bh = w, h
    else:
        d["h_align"] = rng.choice([None, "<", "|", ">"])
        d["v_align"] = rng.choice([None, "^", "-", "_"])
        d["pad_width"] = rng.choice([1, 1, w, w + 1, w + 2, w + 5, 0, -1])
        d["pad_height"] = rng.choice([1, 1, h, h + 1, h + 2, h + 3, -2, 0])
        d["dynamic"] = rel is None and rng.random() < 0.15
        d["start_frame"] = rng.choice([0, 0, 1])
        bw = max(d["pad_width"], w) if d["pad_width"] > 0 else w
        bh = max(d["pad_height"], h) if d["pad_height"] > 0 else h
    rel = rel or rng.choice(["fits", "fits", "fits", "exact", "exact", "w-1", "h-1", "big"])
    if rel == "both":
        d["W"], d["H"] = max(bw - 1, 1), max(bh - 1, 1)
    elif rel == "fits":
        d["W"], d["H"] = bw + rng.randrange(0, 4), bh + rng.randrange(0, 4)
    elif rel == "exact":
        d["W"], d["H"] = bw, bh
    elif rel == "w-1":
        d["W"], d["H"] = max(bw - 1, 1), bh + rng.randrange(0, 3)
    elif rel == "h-1":
        d["W"], d["H"] = bw + rng.randrange(0, 3), max(bh - 1, 1)
    else:
        d["W"], d["H"] = bw + 10, bh + 8
    d["W"], d["H"] = max(d["W"], 2), max(d["H"], 2)
    d["_rel"] = rel
    if d["api"] == "old" and d.get("dynamic"):
        d["W"], d["H"] = max(d["W"], 4), max(d["H"], 5)
    return d


def line_local(d) -> bool:
    """every line of the style's render is a one-line render of its own (scrolling may split it)"""
    return d["style"] == "block" or d["method"] == "lines"


def lean_kind(d) -> str:
    return d.get("term") or "other"


# ------------------------------------------------------------------------------------------


def parse_state(resp: str):
    p = resp.split(" ")
    if p[0] != "ok":
        raise RuntimeError("term.run: " + resp[:200])  # incl. `err lex` for a piece of real output the lexer rejects
    row, col, pw, top, scrolls, wrapped, fg, bg, vis = p[1:10]
    nimg = int(p[10])
    rest = p[11 + nimg:]
    writes = []
    for wr in rest[1:]:
        a, b, c = wr.split(",", 2)
        writes.append((int(a), int(b), c))
    return {"row": int(row), "col": int(col), "pw": int(pw), "top": int(top), "scrolls": int(scrolls),
            "wrapped": int(wrapped), "fg": fg, "bg": bg, "vis": int(vis), "writes": writes,
            "imgs": p[11:11 + nimg]}


def cells_of(writes):
    m = {}
    for r, c, v in writes:
        m[(r, c)] = v
    return m


from common.py2lean_specs import with_translation  # noqa: E402


@with_translation
class C06(Property):
    id = "C06"
    title = "draw() leaves the picture in place and the cursor on the line below it"
    lean_props = ["TIV.C06.Props", "TIV.C06.Compose", "TIV.C06.Scroll", "TIV.C06.Cover", "TIV.C06.Placements", "TIV.C06.LexProps",
                  "TIV.Common.LexProofs"]
    driver = DRIVER
    partial = ("that real terminals behave like TIV.Common.Term; a first frame that scrolls the viewport is proved for "
               "line-wise frames (block, kitty/iterm2 LINES) only - whole-image graphics written while part of the box is "
               "below the viewport are outside the terminal model")
    quick_cases = int(os.environ.get("C06_CASES", "900"))
    thorough_cases = 14000

    def gen_constants(self):
        g = gen_ctl()
        g.update(gen_c06())
        return g

    def generate(self, rng: random.Random, tier: str):
        # size validation: the FULL option grid on every run — animated × animate × allow_scroll/scroll × check_size ×
        # (fits / one column too wide / one line too tall / both), both APIs; the oracle is the documented rule
        for api in ("new", "old"):
            for animated in (True, False):
                for animate in (True, False):
                    for scroll in (True, False):
                        for check in (True, False):
                            for rel in ("fits", "w-1", "h-1", "both"):
                                d = random_config(rng, tier, api)
                                d.update(style="block", term="", nframes=2 if animated else 1, animate=animate, indefinite=False,
                                         allow_scroll=scroll, check_size=check, cols=rng.randrange(3, 7),
                                         lines=rng.randrange(3, 6), by_width=rng.random() < 0.5, loops=1)
                                for k in ("method", "mix", "kitty_version"):
                                    d.pop(k, None)
                                d = finish_geometry(rng, d, rel)
                                if api == "old":
                                    d["dynamic"] = False
                                d["op"] = "validate"
                                yield Case("", d, f"validate-grid-{api}-{rel}", True)
        # … and paddings of every shape — AlignedPadding (relative, relative), (relative, absolute), (absolute, relative),
        # absolute; ExactPadding; a third-party Padding subclass — with the absolute component at terminal-1 / terminal /
        # terminal+1, for a still image, a still image that may scroll, and an animation
        for mode in ("still", "still-scroll", "anim"):
            base = random_config(rng, tier, "new")
            base.update(style="block", term="", nframes=2 if mode == "anim" else 1, animate=True, check_size=True, indefinite=False,
                        allow_scroll=mode != "still", cols=rng.randrange(3, 6), lines=rng.randrange(2, 4),
                        by_width=True, loops=1, cache=False)
            for k in ("method", "mix", "kitty_version"):
                base.pop(k, None)
            _, (w, h) = source_frames({**base, "W": 200, "H": 100})
            W, H = w + rng.randrange(3, 7), h + rng.randrange(3, 6)
            around = [(-1, -1), (0, 0), (1, 0), (0, 1), (1, 1)]
            hv = lambda: [rng.choice(["LEFT", "CENTER", "RIGHT"]), rng.choice(["TOP", "MIDDLE", "BOTTOM"])]  # noqa: E731
            shapes = [["aligned", 0, -2, *hv(), " "], ["aligned", -1, 0, *hv(), " "]]
            shapes += [["aligned", rng.choice([0, -1]), H + dy, *hv(), " "] for dy in (-1, 0, 1)]
            shapes += [["aligned", W + dx, rng.choice([0, -2]), *hv(), " "] for dx in (-1, 0, 1)]
            shapes += [["aligned", W + dx, H + dy, *hv(), " "] for dx, dy in around]
            for kind_ in ("exact", "custom"):
                for dx, dy in around:
                    l, t = rng.randrange(0, W + dx - w + 1), rng.randrange(0, H + dy - h + 1)
                    shapes.append([kind_, l, t, W + dx - w - l, H + dy - h - t, " "])
            for pad in shapes:
                d = dict(base)
                d.update(pad=pad, W=W, H=H, op="validate", _rel="grid")
                yield Case("", d, f"validate-padding-{pad[0]}-{mode}", True)
        # new-API animations of INDEFINITE renderables (frames all numbered 0, never cached) with draw()'s default
        # `cache` / `loops`: what is visible afterwards is the LAST frame of the stream
        for _ in range(6):
            d = random_config(rng, tier, "new")
            d.update(style=rng.choice(["block", "block", "kitty"]), nframes=rng.choice([3, 4, 5]), animate=True,
                     indefinite=True, loops=-1, cache=100, check_size=True, allow_scroll=False)
            if d["style"] == "kitty":
                d.update(method=rng.choice(["lines", "whole"]), term="kitty", kitty_version=[0, 30, 1], mix=False)
            else:
                d["term"] = ""
                for k in ("method", "mix", "kitty_version"):
                    d.pop(k, None)
            d = finish_geometry(rng, d, "fits")
            d["op"] = "trace"
            yield Case("", d, "new-indefinite-anim", True)
        # old-API iterm2 animations on WezTerm with mix=False (drawn over existing text, see `_oracle_over_text`)
        for method in ("lines", "whole", "lines", "whole"):
            d = random_config(rng, tier, "old")
            d.update(style="iterm2", term="wezterm", method=method, mix=False, nframes=rng.choice([2, 3]), animate=True,
                     loops=1, tty=True, check_size=True, allow_scroll=False, cols=rng.randrange(2, 7), lines=rng.randrange(1, 5))
            for k in ("kitty_version", "z_index", "compress", "frame_kinds"):
                d.pop(k, None)
            d = finish_geometry(rng, d, "fits")
            d["op"] = "trace"
            yield Case("", d, "old-iterm2-wezterm-nomix", True)
        # old-API kitty animations with style arguments passed to draw(), on kitty <= 0.25.0 (frames cleared by z-index)
        # and > 0.25.0 (cleared by delete-at-cursor), partly transparent frames: a frame left behind shows through
        # … and on an application SUBCLASS in a fresh support state (the base class never probed)
        for version in ([0, 25, 0], [0, 30, 1], [0, 21, 2]):
            for method in ("lines", "whole"):
                for z in (None, 5, -7):
                    d = random_config(rng, tier, "old")
                    d.update(style="kitty", term="kitty", kitty_version=version, method=method, z_index=z,
                             subclass=(z != 5),
                             mix=rng.random() < 0.5, compress=rng.choice([0, 4]),
                             nframes=rng.choice([2, 3]), animate=True, loops=rng.choice([1, 2]), tty=True,
                             check_size=True, allow_scroll=False, cols=rng.randrange(2, 7), lines=rng.randrange(1, 5))
                    d["frame_kinds"] = ["alpha"] * d["nframes"]
                    d = finish_geometry(rng, d, "fits")
                    d["op"] = "trace"
                    yield Case("", d, f"old-kitty-styleargs-{method}", True)
        while True:
            d = finish_geometry(rng, random_config(rng, tier))
            if d["style"] == "kitty" and d["api"] == "old" and rng.random() < 0.5:
                d["frame_kinds"] = ["alpha"] * max(d["nframes"], 1)
            anim = d["animate"] and d["nframes"] > 1
            kind = f"{d['api']}-{d['style']}-{'anim' if anim else 'still'}-{d['_rel']}"
            x = rng.random()
            d["op"] = "toks" if x < 0.15 else "validate" if x < 0.25 else "trace"
            if d["op"] != "trace":
                kind = f"{d['op']}-{d['api']}"
            yield Case("", d, kind, True)

    def impl(self, case: Case) -> str:
        d = case.data
        r, line, res = run_case(d)
        op = d.get("op", "trace")
        if op == "toks":  # the closed-form token stream the terminal theorems are about
            fr = " ".join([str(len(r.frames))] + [lines_wire(s) for _, s in r.frames])
            line = f"{d['api']}.toks {r.cfg} {fr}"
            res = "ok " + toks_wire(r.stream.getvalue())
        elif op == "validate":
            line = f"{d['api']}.validate {r.cfg}"
            err = r.outcome[4:] if r.outcome.startswith("err ") else None
            res = "ok " + ("none" if err is None else "some " + err)
            if d["api"] == "old":
                rw = d["pad_width"] if d["pad_width"] > 0 else max(d["W"] + d["pad_width"], 1)
                rh = d["pad_height"] if d["pad_height"] > 0 else max(d["H"] + d["pad_height"], 1)
                cls = setup_style(d)
                chk = cls._check_formatting(d["h_align"], d["pad_width"], d["v_align"], d["pad_height"])
                assert (chk[1], chk[3]) == (rw, rh)
                res += f" {chk[1]} {chk[3]}"
        case.line = line
        d["_stream"] = r.stream.getvalue()
        self._outs.append(d["_stream"])
        d["_segments"] = list(r.stream.segments)
        d["_box"] = list(r.box)
        d["_inner"] = list(r.inner) if r.inner else None
        d["_size"] = list(r.size)
        d["_frames"] = [s for _, s in r.frames]
        d["_outcome"] = r.outcome
        return res

    # -- oracle: the property stated on the captured bytes, interpreted by the terminal model ----
    def oracle(self, case: Case, impl_result: str):
        d = case.data
        where = f"{d['api']}/{d['style']}/{d.get('method', '')}/{d.get('term', '')}"
        anim = d["animate"] and d["nframes"] > 1
        out = d["_stream"]
        if d["_outcome"].startswith("err "):
            if out:
                return Failure(f"validate-wrote/{where}", f"size validation raised {d['_outcome']} after writing {out[:40]!r}")
            return self._oracle_validate(d, where, raised=True)
        if d["_outcome"] != "returned":
            return Failure(f"outcome/{where}", f"a fault-free draw ended with {d['_outcome']}")
        f = self._oracle_validate(d, where, raised=False)
        if f:
            return f
        W, H = d["W"], d["H"]
        bw, bh = d["_box"]
        fits = not (bw > W or (bh > H and (anim or not line_local(d))))
        rng = random.Random(hash(case.line) & 0xFFFFF)
        starts = [0, max(H - bh, 0)]
        if line_local(d):
            starts += [H - 1, rng.randrange(0, H)]
        else:
            starts += [rng.randrange(0, max(H - bh, 0) + 1)]
        top0 = rng.randrange(0, 3)
        # the real BYTES go to the Lean side: one reading by the Lean lexer (`TIV.Lex.lex`), run on every terminal
        ans = lexcheck.parse_runbytes_n(lexcheck.run_batched(DRIVER, [lexcheck.runbytes_n_request(
            out, [(W, H, lean_kind(d), top0 + s0, 0, top0, 0) for s0 in starts])])[0])
        if ans is None:
            return Failure(f"tokenize/{where}", "the Lean lexer rejects the stream: it is not a sequence of complete, canonical "
                           f"control sequences of the library ({out[:60]!r}…)")
        toks, res = ans  # wire tokens as read by the Lean lexer
        if not fits:
            return None  # nothing is claimed when the box cannot fit (validation off) and the render is not line-wise
        for s0, resp in zip(starts, res):
            st = parse_state(resp)
            r0 = top0 + s0
            at = f"terminal {W}x{H}, start row {s0}, box {bw}x{bh}"
            bad = [(r, c) for r, c, _ in st["writes"] if not (r0 <= r < r0 + bh and 0 <= c < bw)]
            if bad:
                return Failure(f"outside/{where}/{'anim' if anim else 'still'}",
                               f"cells outside the padded region were changed, e.g. {bad[:3]} ({at})")
            if (st["row"], st["col"]) != (r0 + bh, 0):
                return Failure(f"cursor/{where}/{'anim' if anim else 'still'}/{'1line' if bh == 1 else 'n'}",
                               f"cursor ends at row {st['row'] - r0} col {st['col']} relative to the region's top, "
                               f"expected ({bh}, 0) ({at})")
            if not st["vis"]:
                return Failure(f"hidden/{where}", f"cursor left hidden ({at})")
            if st["fg"] != "d" or st["bg"] != "d":
                return Failure(f"sgr/{where}", f"text attributes not reset ({at})")
            if st["wrapped"]:
                return Failure(f"wrap/{where}", f"output wrapped at the right margin ({at})")
            need = max(0, r0 + bh + 1 - (top0 + H))
            if st["scrolls"] != need:
                return Failure(f"scroll/{where}", f"scrolled {st['scrolls']} lines, {need} necessary ({at})")
        # last frame in place + every frame over the same cells (first start row that fits)
        s0 = 0
        r0 = top0 + s0
        f = self._oracle_frames(d, where, toks, W, H, r0, top0, anim)
        return f

    _outs: list = []

    def extra_checks(self, rng, tier, ev):
        """the Python tokenizer (still used to build the model's request lines) against the Lean lexer, on every real output"""
        outs = list(dict.fromkeys(self._outs))
        bad = lexcheck.cross_check(self.driver, outs)
        ev["coverage"]["lexer_cross_check"] = {"outputs": len(outs), "disagreements": len(bad)}
        if bad:
            raise RuntimeError("Python tokenizer and Lean lexer disagree: " + "; ".join(bad[:2]))
        return []

    def _oracle_validate(self, d, where, raised: bool):
        """the documented size rules, evaluated directly"""
        W, H = d["W"], d["H"]
        anim = d["animate"] and d["nframes"] > 1
        w, h = d["_size"]
        bw, bh = d["_box"]
        if d["api"] == "new":
            fits = True
            if d["check_size"] or anim:
                fits = bw <= W and (bh <= H if (not d["allow_scroll"] or anim) else True)
        else:
            fits = d["pad_width"] <= W and (d["pad_height"] <= H if anim else True)
            if not d.get("dynamic") and (d["check_size"] or anim):
                fits = fits and w <= W and (h <= H if (not d["allow_scroll"] or anim) else True)
        if raised and fits:
            return Failure(f"validate-false-reject/{where}", f"{d['_outcome']} although the documented rules accept "
                           f"render {w}x{h}, padded {bw}x{bh} on {W}x{H}")
        if not raised and not fits:
            return Failure(f"validate-accept/{where}", f"no error although render {w}x{h}, padded {bw}x{bh} "
                           f"does not fit {W}x{H} by the documented rules")
        if raised:
            want = "RenderSizeOutofRangeError" if d["api"] == "new" else None
            got = d["_outcome"][4:]
            if want and got != want or (not want and got not in ("ValueError", "InvalidSizeError")):
                return Failure(f"validate-error-kind/{where}", f"raised {got}")
        return None

    def _oracle_frames(self, d, where, toks, W, H, r0, top0, anim):
        """`toks`: the wire tokens of the whole stream as read by the Lean lexer; every other piece of real output used
        here (first padded frame, last frame, segments) goes to the Lean side as bytes too"""
        out = d["_stream"]

        def rb(text, row, col, lm):  # one terminal run of real bytes; None = the lexer rejects them
            return lexcheck.runbytes_request(W, H, kind, row, col, top0, lm, text)

        def wire(ws):
            return " ".join([str(len(ws))] + ws)

        bw, bh = d["_box"]
        frames = d["_frames"]
        if not frames or bh > H:
            return None
        kind = lean_kind(d)
        # expected final content: the first (padded) frame, then the last frame, placed directly
        if d["api"] == "new":
            t, l, w, h = d["_inner"]
            segs = d["_segments"]
            first_padded = segs[1] if (d["tty"] and d["hide"]) else segs[0]
            reqs = [rb(first_padded, r0, 0, 0), rb(frames[-1], r0 + t, l, l), rb(out, r0, 0, 0)]
            a, b, got_state = (parse_state(x) for x in lexcheck.run_batched(DRIVER, reqs))
            want = cells_of(a["writes"])
            if anim:
                want.update(cells_of(b["writes"]))
            if anim and d.get("clear_mode") == "delz" and d["style"] == "kitty" and len(frames) > 1:
                # the graphics hook deletes the previous frame's placements before each later frame is drawn: what is on
                # screen afterwards are the LAST frame's placements
                if sorted(got_state["imgs"]) != sorted(b["imgs"]):
                    return Failure(f"placements/{where}/clear-hook",
                                   f"after draw() the graphics placements on screen {sorted(got_state['imgs'])[:4]} are not the "
                                   f"last frame's {sorted(b['imgs'])[:4]}: `_clear_frame_` did not run before the frame was drawn")
            inner = {(r0 + t + i, l + j) for i in range(h) for j in range(w)}
        else:
            import term_image.image.common as C  # the real `_format_render` places the last frame in the box
            cls = setup_style(d)
            im = cls(gif_for(d))
            im._size = tuple(d["_size"])
            rw = d["pad_width"] if d["pad_width"] > 0 else max(d["W"] + d["pad_width"], 1)
            rh = d["pad_height"] if d["pad_height"] > 0 else max(d["H"] + d["pad_height"], 1)
            padded = im._format_render(frames[-1] if anim else frames[0], d["h_align"], rw, d["v_align"], rh)
            a, got_state = (parse_state(x) for x in lexcheck.run_batched(DRIVER, [rb(padded, r0, 0, 0), rb(out, r0, 0, 0)]))
            want = cells_of(a["writes"])
            inner = None
            # graphics placements (kitty proper: the code clears earlier frames by z-index or at the cursor): what is left
            # in the box is the last frame's placements; an earlier frame's placement may only stay when every later
            # frame is opaque (then it is covered) — with partly transparent frames it shows through
            if (anim and d["style"] == "kitty" and d.get("term") == "kitty" and d.get("kitty_version")
                    and "alpha" in (d.get("frame_kinds") or [])):
                left, last = sorted(got_state["imgs"]), sorted(a["imgs"])
                if left != last:
                    import collections
                    extra = sorted((collections.Counter(left) - collections.Counter(last)).elements())
                    return Failure(f"placements/{where}/z{'-given' if d.get('z_index') is not None else '-default'}",
                                   f"after draw() {len(left)} graphics placements are on screen, the last frame has {len(last)}: "
                                   f"earlier frames were not cleared and show through the last one, e.g. {extra[:3]} "
                                   f"(kitty {d.get('kitty_version')}, style args z_index={d.get('z_index')} mix={d.get('mix')})")
        if d["api"] == "old" and d["style"] == "iterm2" and d.get("term") == "wezterm" and not d.get("mix") and anim:
            f = self._oracle_over_text(d, where, toks, W, H, kind, a)
            if f:
                return f
        got = cells_of(got_state["writes"])
        if d["api"] == "old" and d["style"] == "iterm2" and d.get("term") == "wezterm" and not d.get("mix") and anim:
            # the pre-erase blanks the image's cells first; every cell of the image is drawn over afterwards
            want = {k: v for k, v in want.items()}
            got = {k: v for k, v in got.items() if k in want or v != "e:d"}
        if got != want:
            diff = [k for k in set(got) | set(want) if got.get(k) != want.get(k)]
            return Failure(f"last-frame/{where}", f"after draw() the region does not hold the last frame inside the "
                           f"first frame's padding: {len(diff)} cells differ, e.g. {sorted(diff)[:3]} (start row {r0 - top0})")
        if anim and inner is not None and len(frames) > 1:
            # every later frame is drawn over exactly the first frame's render rectangle
            segs = d["_segments"]
            later = {fr.replace("\n", "\n" + ctl.cursor_forward(d["_inner"][1])) for fr in frames[1:]}
            counts = [int(x.split(" ", 1)[0]) for x in lexcheck.lean_lex_many(DRIVER, segs)]  # tokens per write, Lean's reading
            first_seen = False
            spans = []
            pos = 0
            for s, n in zip(segs, counts):
                if s in later and first_seen:
                    spans.append((pos, pos + n))
                if "\n" in s or n > 1 or s in later:
                    first_seen = True
                pos += n
            spans = spans[:4]
            reqs = []
            for a_, b_ in spans:
                reqs.append(f"term.run {W} {H} {kind} {r0} 0 {top0} 0 {wire(toks[:a_])}")
                reqs.append(f"term.run {W} {H} {kind} {r0} 0 {top0} 0 {wire(toks[:b_])}")
            if reqs:
                sts = [parse_state(x) for x in fw.run_driver(DRIVER, reqs)]
                for i in range(0, len(sts), 2):
                    new = sts[i + 1]["writes"][len(sts[i]["writes"]):]
                    cells = {(r, c) for r, c, _ in new}
                    if cells != inner:
                        return Failure(f"frame-cells/{where}", f"a frame was drawn over {len(cells)} cells that are not "
                                       f"the first frame's render rectangle ({len(inner)} cells), e.g. "
                                       f"{sorted(cells ^ inner)[:3]}")
        return None

    def _oracle_over_text(self, d, where, toks, W, H, kind, last_alone):
        """WezTerm draws an inline image OVER what the cells hold (text shows through transparent pixels; the library
        says so: that is what `mix` is about). With `mix=False` every cell of the picture must have been blanked before
        the image is put there. The box is pre-loaded with text, the draw is run over it, and every image cell must have
        received an erase / a blank after the pre-load."""
        bw, bh = d["_box"]
        if bh > H or bw > W:
            return None
        img_cells = {(r, c) for r, c, v in last_alone["writes"] if v == "i"}  # the last frame alone, placed at the box
        rows = sorted({r for r, _ in img_cells})
        if not rows:
            return None
        top = min(r for r, c, v in last_alone["writes"])
        pre = "\n".join(["x" * bw] * bh) + "\r" + ctl.cursor_up(bh - 1)
        st = parse_state(lexcheck.run_batched(DRIVER, [lexcheck.runbytes_request(W, H, kind, 0, 0, 0, 0, pre + d["_stream"])])[0])
        after = st["writes"][bw * bh:]
        cleared = {(r, c) for r, c, v in after if v.startswith("e:") or v.startswith("t:")}
        want = {(r - top, c) for r, c in img_cells}
        left = sorted(want - cleared)
        if left:
            return Failure(f"old-text/{where}", f"mix=False on WezTerm: {len(left)} cells of the picture were never blanked before the "
                           f"image was drawn over them — the text that was there shows through, e.g. {left[:3]}")
        return None

    def search(self, rng, tier, reasons):
        fails = []
        for i in range(300):
            d = finish_geometry(rng, random_config(rng, tier))
            c = Case("", d, "search")
            try:
                res = self.impl(c)
                f = self.oracle(c, res)
            except Exception:
                continue
            if f:
                f.case = c
                fails.append(f)
                if len({x.key for x in fails}) >= 6:
                    break
        return fails


def stdout_aliases():
    """AST scan of the imported package: (module-level names bound to an expression mentioning `sys.stdout`,
    functions that use such a name) — an alias keeps pointing at the stream that was `sys.stdout` at import time"""
    import ast
    import pathlib
    root = pathlib.Path(term_image.__file__).parent
    aliases, users = [], []
    for path in sorted(root.rglob("*.py")):
        mod = ".".join(path.relative_to(root).with_suffix("").parts)
        tree = ast.parse(path.read_text())
        names = set()
        for node in tree.body:
            if isinstance(node, (ast.Assign, ast.AnnAssign)) and node.value is not None and "sys.stdout" in ast.unparse(node.value):
                for t in (node.targets if isinstance(node, ast.Assign) else [node.target]):
                    names.add(ast.unparse(t))
        aliases += [f"{mod}.{n}" for n in sorted(names)]
        if not names:
            continue

        def visit(node, qual):
            for ch in ast.iter_child_nodes(node):
                if isinstance(ch, ast.ClassDef):
                    visit(ch, qual + [ch.name])
                elif isinstance(ch, (ast.FunctionDef, ast.AsyncFunctionDef)):
                    if any(isinstance(x, ast.Name) and x.id in names and isinstance(x.ctx, ast.Load) for x in ast.walk(ch)):
                        users.append(".".join([mod] + qual + [ch.name]))
                    visit(ch, qual + [ch.name])

        visit(tree, [])
    return aliases, sorted(users)


def hook_arg_name(fn, callee: str) -> str:
    """the local name passed as the render-arguments argument (2nd positional) of every `self.<callee>(…)` call in `fn`
    (read from the AST of the live function); `?` if the calls disagree or there is none"""
    import ast
    import inspect
    import textwrap
    names = set()
    for node in ast.walk(ast.parse(textwrap.dedent(inspect.getsource(fn)))):
        if isinstance(node, ast.Call) and isinstance(node.func, ast.Attribute) and node.func.attr == callee:
            a = node.args[1] if len(node.args) > 1 else None
            names.add(a.id if isinstance(a, ast.Name) else "?")
    return names.pop() if len(names) == 1 else "?"


def gen_c06() -> dict[str, str]:
    """constants of the draw paths read from the live objects"""
    import inspect

    nd = inspect.signature(Renderable.draw).parameters
    od = inspect.signature(old_common.BaseImage.draw).parameters
    pad = nd["padding"].default
    k_hook = toks_wire(old_hook(KittyImage)).split(" ")[1:]
    i_hook = toks_wire(old_hook(ITerm2Image)).split(" ")[1:]

    def toks(ws):
        m = {"st": ".st", "ke": ".kittyEndChunked"}
        return "[" + ", ".join("Tok" + m[w] for w in ws) + "]"

    lines = [
        "import TIV.Common.Tok",
        "/-! GENERATED by harness/c06.py from the live `draw()` objects — do not edit -/",
        "namespace TIV.C06.Generated",
        f"def newDefaultPadding : Int × Int := ({pad.width}, {pad.height})",
        f"def newDefaults : Bool × Bool × Bool × Bool := ({str(nd['check_size'].default).lower()}, "
        f"{str(nd['allow_scroll'].default).lower()}, {str(nd['hide_cursor'].default).lower()}, {str(nd['echo_input'].default).lower()})",
        f"def oldDefaultPad : Int × Int := ({od['pad_width'].default}, {od['pad_height'].default})",
        f"def oldDefaults : Bool × Bool := ({str(od['scroll'].default).lower()}, {str(od['check_size'].default).lower()})",
        f"def kittyHook : List Tok := {toks(k_hook)}",
        f"def itermHook : List Tok := {toks(i_hook)}",
        f"def hideCursor : String := {lean_str(ctl.HIDE_CURSOR)}",
        f"def showCursor : String := {lean_str(ctl.SHOW_CURSOR)}",
        f"def kittyAnimZ : Int := {-(1 << 31)}",
        f"def stdoutAliases : List String := [{', '.join(lean_str(x) for x in stdout_aliases()[0])}]",
        f"def stdoutAliasUsers : List String := [{', '.join(lean_str(x) for x in stdout_aliases()[1])}]",
        f"def hookArgsStill : String := {lean_str(hook_arg_name(Renderable.draw, '_handle_interrupted_draw_'))}",
        f"def animateArgs : String := {lean_str(hook_arg_name(Renderable.draw, '_animate_'))}",
        f"def hookArgsAnim : String := {lean_str(hook_arg_name(Renderable._animate_, '_handle_interrupted_draw_'))}",
        "end TIV.C06.Generated",
    ]
    return {"TIV/C06/Generated.lean": "\n".join(lines) + "\n"}


if __name__ == "__main__":
    fw.main(C06)
