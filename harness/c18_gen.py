"""C18 — script generator: random layouts (Pile/Columns/Overlay/ListBox scroll/LineBox, lone top widgets)
of kitty/iterm2/block image widgets and histories of redraws/clear/start/stop over them."""
from __future__ import annotations

import random

TEXTS = ["t", "hello", "OV", "lorem ipsum dolor", "x" * 40]


def gen_widgets(rng: random.Random, term: str):
    n = rng.choice([1, 2, 2, 3, 4])
    ws = []
    for _ in range(n):
        style = rng.choice({"konsole": ["kitty", "kitty", "iterm2", "iterm2", "block"],
                            "kitty": ["kitty", "kitty", "kitty", "block"],
                            "other": ["block", "block", "iterm2"]}[term])
        ws.append({
            "style": style,
            "iw": rng.choice([4, 8, 16, 40, rng.randrange(4, 60)]),
            "ih": rng.choice([4, 8, 16, 40, rng.randrange(4, 60)]),
            "upscale": rng.random() < 0.6,
            "fmt": rng.choice(["", "", "<", ">", ".^", "._", "<.^", ">._", "|.-"]) if rng.random() < 0.4 else "",
            "color": [rng.randrange(256) for _ in range(3)],
        })
    return ws


def gen_flow_item(rng, nw):
    r = rng.random()
    if r < 0.55:
        return ["img", rng.randrange(nw)]
    if r < 0.9:
        return ["text", rng.choice(TEXTS)]
    return ["div", rng.choice(["-", " "])]


def gen_box(rng, nw, W, H, depth=0):
    r = rng.random()
    if depth >= 2:
        r = r * 0.55
    if r < 0.22:
        return ["img", rng.randrange(nw)]
    if r < 0.30:
        return ["fill", rng.choice(["x", ".", " "])]
    if r < 0.36:
        return ["ftext", rng.choice(TEXTS), rng.choice(["top", "middle", "bottom"])]
    if r < 0.55:
        items = [gen_flow_item(rng, nw) for _ in range(rng.randrange(0, 7))]
        node = ["listbox", items, rng.randrange(0, max(1, len(items)))]
        if rng.random() < 0.4:
            node.append(rng.choice(["top", "middle", "bottom"]))
        return node
    if r < 0.62:
        return ["fpile", [gen_flow_item(rng, nw) for _ in range(rng.randrange(1, 4))], rng.choice(["top", "middle", "bottom"])]
    if r < 0.74:
        return ["pile", [[rng.choice([1, 1, 2, 3]), gen_box(rng, nw, W, H, depth + 1)] for _ in range(rng.randrange(1, 4))]]
    if r < 0.86:
        return ["cols", [[rng.choice([1, 1, 2, 3]), gen_box(rng, nw, W, H, depth + 1)] for _ in range(rng.randrange(1, 4))],
                rng.choice([0, 0, 1])]
    if r < 0.90:
        return ["lbox", gen_box(rng, nw, W, H, depth + 1)]
    return gen_overlay(rng, nw, W, H, gen_box(rng, nw, W, H, depth + 1))


def gen_overlay(rng, nw, W, H, bottom):
    top = rng.choice([["ftext", "OV"], ["fill", "o"], ["lbox", ["fill", "x"]], ["img", rng.randrange(nw)]])
    align = rng.choice(["left", "center", "right", ["relative", rng.randrange(0, 101)]])
    valign = rng.choice(["top", "middle", "bottom", ["relative", rng.randrange(0, 101)]])
    return ["overlay", top, bottom, align, rng.randrange(1, W + 1), valign, rng.randrange(1, H + 1)]


def mutate(rng, layout, nw, W, H):
    """the next layout of a history: small changes are what exposes stale views"""
    r = rng.random()
    k = layout[0]
    if k == "overlay" and r < 0.5:
        if rng.random() < 0.5:
            return layout[2]  # close the overlay
        new = list(layout)  # move / resize it
        moved = gen_overlay(rng, nw, W, H, layout[2])
        for i in rng.sample([3, 4, 5, 6], rng.randrange(1, 3)):
            new[i] = moved[i]
        return new
    if k == "listbox" and r < 0.6 and layout[1]:
        new = [k, list(layout[1]), layout[2]] + list(layout[3:])
        a = rng.random()
        if a < 0.5:
            new[2] = rng.randrange(len(new[1]))  # scroll
        elif a < 0.7 and len(new[1]) > 1:
            del new[1][rng.randrange(len(new[1]))]
            new[2] = min(new[2], len(new[1]) - 1)
        else:
            new[1].insert(rng.randrange(len(new[1]) + 1), gen_flow_item(rng, nw))
        return new
    if k in ("pile", "cols") and r < 0.6:
        kids = [list(c) for c in layout[1]]
        i = rng.randrange(len(kids))
        a = rng.random()
        if a < 0.4:
            kids[i][1] = mutate(rng, kids[i][1], nw, W, H)
        elif a < 0.6:
            kids[i][0] = rng.choice([1, 2, 3])
        elif a < 0.8 and len(kids) > 1:
            del kids[i]
        else:
            kids.insert(i, [1, gen_box(rng, nw, W, H, 2)])
        return [k, kids] + list(layout[2:])
    if r < 0.75:
        return gen_overlay(rng, nw, W, H, layout)  # open an overlay over it
    return gen_box(rng, nw, W, H)


def gen_script(rng: random.Random, tier: str = "quick"):
    term = rng.choice(["kitty", "kitty", "konsole", "konsole", "other"])
    W, H = rng.choice([(30, 12), (20, 8), (rng.randrange(6, 41), rng.randrange(3, 17))])
    ws = gen_widgets(rng, term)
    nw = len(ws)
    sc = {"term": term, "W": W, "H": H, "widgets": ws, "cell": rng.choice([[4, 8], [4, 8], [5, 10], [8, 16]]),
          "kitty_supported": term != "other", "iterm2_supported": term != "kitty", "steps": []}
    layout = gen_box(rng, nw, W, H)
    n = rng.randrange(2, 9 if tier == "quick" else 14)
    for i in range(n):
        r = rng.random()
        if i and r < 0.06:
            sc["steps"].append({"op": "clear"})
        elif i and r < 0.09:
            sc["steps"].append({"op": "stop"})
            sc["steps"].append({"op": "start"})
        elif i and r < 0.13:
            sc["steps"].append({"op": "draw", "same": True})
        elif i == n - 1 and r < 0.25:
            # a canvas of the wrong size makes the base class raise: only as the last step (what the
            # screen shows after the caller broke draw_screen's precondition is not judged)
            sc["steps"].append({"op": "draw", "layout": layout, "badsize": True})
        elif i and r < 0.19 and sc["steps"][-1]["op"] != "clear_images":
            # at most one explicit clear between two redraws (docs/C18.md: the 3-cycle of disguises
            # collides when a widget is cleared 3 times between two redraws)
            sc["steps"].append({"op": "clear_images",
                                "widgets": [rng.randrange(nw) for _ in range(rng.choice([0, 1, 2, 3, 3]))]})
        else:
            if i:
                layout = mutate(rng, layout, nw, W, H)
            sc["steps"].append({"op": "draw", "layout": layout})
    return sc
