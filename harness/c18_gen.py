"""C18 — script generator: random layouts (Pile/Columns/Overlay/ListBox scroll/LineBox, lone top widgets)
of kitty/iterm2/block image widgets and histories of redraws/clear/start/stop over them."""
from __future__ import annotations

import random

TEXTS = ["t", "hello", "OV", "lorem ipsum dolor", "x" * 40]


def gen_style_spec(rng: random.Random) -> str:
    """style-specific fields of a kitty format spec: `+[L][z<index>][m<0|1>][c<level>]`. The z-index field is
    documented as ignored by `UrwidImage`; small values collide with the allocator's own 1, -1, 2, …"""
    out = rng.choice(["", "", "L"])
    if rng.random() < 0.75:
        out += "z" + str(rng.choice([0, 1, -1, 2, -2, 3, 7, rng.randrange(-50, 50), 2**31 - 1, -(2**31) + 1]))
    if rng.random() < 0.3:
        out += "m" + rng.choice("01")
    if rng.random() < 0.3:
        out += "c" + str(rng.randrange(0, 10))
    return "+" + out if out else "+z1"


def gen_widgets(rng: random.Random, term: str):
    n = rng.choice([1, 2, 2, 3, 4])
    mixed = rng.random() < 0.5
    # several widgets created with one and the same non-empty format spec string (an image grid)
    shared = (rng.choice(["", "<", ".^", "|.-"]) + rng.choice(["+L", "+L", "+Lz3", "+m1", "+c3", "+z-2", "+Lm0c5"])
              if rng.random() < 0.35 else None)
    ws = []
    for _ in range(n):
        style = rng.choice({"konsole": ["kitty", "kitty", "iterm2", "iterm2", "block"],
                            "kitty": ["kitty", "kitty", "kitty", "block"],
                            "forced": ["kitty", "kitty", "kitty", "block"],
                            "other": ["block", "block", "iterm2"]}[term])
        ws.append({
            "style": style,
            "iw": rng.choice([4, 8, 16, 40, rng.randrange(4, 60)]),
            "ih": rng.choice([4, 8, 16, 40, rng.randrange(4, 60)]),
            "upscale": rng.random() < 0.6,
            "cls": rng.choice([0, 0, 1, 2]) if mixed else 0,  # UrwidImage / application-defined subclasses
            "fmt": shared if shared is not None and style == "kitty" else
            (rng.choice(["", "", "<", ">", ".^", "._", "<.^", ">._", "|.-"]) if rng.random() < 0.4 else "")
            + (gen_style_spec(rng) if style == "kitty" and rng.random() < 0.35 else ""),
            "color": [rng.randrange(256) for _ in range(3)],
        })
    return ws


def gen_flow_item(rng, nw):
    r = rng.random()
    if r < 0.55:
        return ["img", rng.randrange(nw)]
    if r < 0.9:
        return ["text", rng.choice(TEXTS)]
    return ["div", rng.choice(["-", " "])]


def gen_box(rng, nw, W, H, depth=0):
    r = rng.random()
    if depth >= 2:
        r = r * 0.55
    if r < 0.22:
        return ["img", rng.randrange(nw)]
    if r < 0.30:
        return ["fill", rng.choice(["x", ".", " "])]
    if r < 0.36:
        return ["ftext", rng.choice(TEXTS), rng.choice(["top", "middle", "bottom"])]
    if r < 0.55:
        items = [gen_flow_item(rng, nw) for _ in range(rng.randrange(0, 7))]
        node = ["listbox", items, rng.randrange(0, max(1, len(items)))]
        if rng.random() < 0.4:
            node.append(rng.choice(["top", "middle", "bottom"]))
        return node
    if r < 0.62:
        return ["fpile", [gen_flow_item(rng, nw) for _ in range(rng.randrange(1, 4))], rng.choice(["top", "middle", "bottom"])]
    if r < 0.74:
        return ["pile", [[rng.choice([1, 1, 2, 3]), gen_box(rng, nw, W, H, depth + 1)] for _ in range(rng.randrange(1, 4))]]
    if r < 0.86:
        return ["cols", [[rng.choice([1, 1, 2, 3]), gen_box(rng, nw, W, H, depth + 1)] for _ in range(rng.randrange(1, 4))],
                rng.choice([0, 0, 1])]
    if r < 0.90:
        return ["lbox", gen_box(rng, nw, W, H, depth + 1)]
    return gen_overlay(rng, nw, W, H, gen_box(rng, nw, W, H, depth + 1))


def gen_caption_columns(rng, nw, W, H):
    """Columns of equal fixed width, each a Pile: a caption of 1–3 rows, then an image of fixed height or
    a fill, then the rest. Captions of different heights put canvas boundaries of one column inside the rows
    of a neighbour's caption (shard tails); swapping columns moves the same cached image canvas horizontally."""
    n = rng.choice([2, 3, 3, 4])
    cw = max(2, min(12, (W - rng.choice([0, 0, 1, 3])) // n))
    ih = rng.randrange(2, max(3, H - 3))
    cols = []
    for _ in range(n):
        r = rng.random()
        if r < 0.3:  # a plain column: one canvas from top to bottom, no boundary
            cols.append([cw, ["fill", rng.choice("cde")]])
            continue
        if r < 0.65:  # caption (mostly 2–3 rows: a tail for the shorter captions to its left), image, rest
            cap = rng.choice([2, 2, 3, 3, 1])
            kids = [[cap, ["fill", "b"]], [ih, ["img", rng.randrange(nw)]], [None, ["fill", "."]]]
        elif r < 0.85:
            kids = [[rng.choice([1, 1, 1, 2]), ["fill", "a"]], [None, ["fill", "."]]]
        else:
            kids = [[rng.choice([1, 2, 3]), ["fill", "a"]], [rng.randrange(1, 3), ["fill", "-"]], [None, ["fill", "."]]]
        if sum(h for h, _ in kids if h) >= H:
            kids = [[None, ["fill", "."]]]
        cols.append([cw, ["hpile", kids]])
    if not any(c[0] == "hpile" and any(k[1][0] == "img" for k in c[1]) for _, c in cols):
        cap = rng.choice([1, 2, 3])
        if cap + ih < H:
            cols[rng.randrange(n)] = [cw, ["hpile", [[cap, ["fill", "b"]], [ih, ["img", rng.randrange(nw)]], [None, ["fill", "."]]]]]
    if n * cw < W:
        cols.append([None, ["fill", " "]])
    return ["fcols", cols]


def gen_overlay(rng, nw, W, H, bottom):
    top = rng.choice([["ftext", "OV"], ["fill", "o"], ["lbox", ["fill", "x"]], ["img", rng.randrange(nw)]])
    align = rng.choice(["left", "center", "right", ["relative", rng.randrange(0, 101)]])
    valign = rng.choice(["top", "middle", "bottom", ["relative", rng.randrange(0, 101)]])
    return ["overlay", top, bottom, align, rng.randrange(1, W + 1), valign, rng.randrange(1, H + 1)]


def is_status(layout):
    return (layout[0] == "hpile" and len(layout[1]) == 2 and layout[1][0][0] is None
            and layout[1][1][0] == 1 and layout[1][1][1][0] == "fill")


def mutate(rng, layout, nw, W, H):
    """the next layout of a history: small changes are what exposes stale views"""
    if is_status(layout):
        # a status line below the body: changing it gives a new top canvas while the image widgets neither
        # move nor re-render (their canvases stay cached)
        inner, st = layout[1][0][1], layout[1][1][1]
        if rng.random() < 0.45:
            st = ["fill", rng.choice([c for c in "01234" if c != st[1]])]
        else:
            inner = mutate(rng, inner, nw, W, H - 1)
        return ["hpile", [[None, inner], [1, st]]]
    r = rng.random()
    k = layout[0]
    if k == "fcols" and r < 0.85:
        cols = [list(c) for c in layout[1]]
        fixed = [i for i, c in enumerate(cols) if c[0] is not None]
        a = rng.random()
        plain = [i for i, c in enumerate(cols) if c[1][0] == "fill"]
        if a < 0.2 and plain:  # a neighbour's cells change: rows holding image lines are re-sent, nothing moves
            i = rng.choice(plain)
            cols[i] = [cols[i][0], ["fill", rng.choice([ch for ch in "cdefg" if ch != cols[i][1][1]])]]
        elif a < 0.7 and len(fixed) > 1:  # swap two columns: a purely horizontal move of whatever they hold
            i, j = rng.sample(fixed, 2)
            cols[i], cols[j] = cols[j], cols[i]
        elif fixed:  # change a caption's height (a vertical move below it)
            i = rng.choice(fixed)
            kids = [list(kk) for kk in cols[i][1][1]] if cols[i][1][0] == "hpile" else [[None, None]]
            if kids[0][0] is not None:
                kids[0][0] = rng.choice([1, 2, 3])
                if sum(h for h, _ in kids if h) < H:
                    cols[i] = [cols[i][0], ["hpile", kids]]
        return ["fcols", cols]
    if k == "overlay" and r < 0.5:
        if rng.random() < 0.5:
            return layout[2]  # close the overlay
        new = list(layout)  # move / resize it
        moved = gen_overlay(rng, nw, W, H, layout[2])
        for i in rng.sample([3, 4, 5, 6], rng.randrange(1, 3)):
            new[i] = moved[i]
        return new
    if k == "listbox" and r < 0.6 and layout[1]:
        new = [k, list(layout[1]), layout[2]] + list(layout[3:])
        a = rng.random()
        if a < 0.5:
            new[2] = rng.randrange(len(new[1]))  # scroll
        elif a < 0.7 and len(new[1]) > 1:
            del new[1][rng.randrange(len(new[1]))]
            new[2] = min(new[2], len(new[1]) - 1)
        else:
            new[1].insert(rng.randrange(len(new[1]) + 1), gen_flow_item(rng, nw))
        return new
    if k in ("pile", "cols") and r < 0.6:
        kids = [list(c) for c in layout[1]]
        i = rng.randrange(len(kids))
        a = rng.random()
        if a < 0.4:
            kids[i][1] = mutate(rng, kids[i][1], nw, W, H)
        elif a < 0.6:
            kids[i][0] = rng.choice([1, 2, 3])
        elif a < 0.8 and len(kids) > 1:
            del kids[i]
        else:
            kids.insert(i, [1, gen_box(rng, nw, W, H, 2)])
        return [k, kids] + list(layout[2:])
    if r < 0.75:
        return gen_overlay(rng, nw, W, H, layout)  # open an overlay over it
    return gen_box(rng, nw, W, H)


def gen_leftover(rng, W, H):
    """kitty placements another program left on the terminal"""
    return [[1, rng.randrange(H), rng.randrange(max(1, W // 2)), rng.randrange(1, W // 2 + 1), 1,
             rng.choice([0, 1, -1, 5, rng.randrange(-99, 99)])] for _ in range(rng.randrange(1, 5))]


def start_seq(rng):
    """`start()` with the keyword urwid's raw display documents: `alternate_buffer` True / False / not given.
    Without the alternate buffer urwid draws in its partial-display mode, which these histories do not
    exercise: the screen is stopped and started again before anything is drawn."""
    alt = rng.choice([None, True, False, False])
    if alt is False:
        return [{"op": "start", "alt": False}, {"op": "stop"}, rng.choice([{"op": "start"}, {"op": "start", "alt": True}])]
    return [{"op": "start"} if alt is None else {"op": "start", "alt": True}]


def gen_script(rng: random.Random, tier: str = "quick"):
    term = rng.choice(["kitty", "kitty", "konsole", "konsole", "other", "forced"])
    # "forced": a terminal that is neither kitty nor konsole but speaks the kitty protocol
    # (`KittyImage.forced_support = True`; `is_supported()` itself is False there)
    forced = term == "forced"
    name = rng.choice(["wezterm", "iterm2", "other"]) if forced else term
    W, H = rng.choice([(30, 12), (20, 8), (rng.randrange(6, 41), rng.randrange(3, 17))])
    ws = gen_widgets(rng, term)
    nw = len(ws)
    sc = {"term": name, "forced": forced, "W": W, "H": H, "widgets": ws, "cell": rng.choice([[4, 8], [4, 8], [5, 10], [8, 16]]),
          "kitty_supported": term in ("kitty", "konsole"), "iterm2_supported": term in ("konsole", "other"),
          "steps": []}
    if term in ("kitty", "konsole") and rng.random() < 0.12:
        # a fresh process: support not probed yet, no image widget yet, an earlier program's images still on
        # the terminal; the screen is started / cleared first
        sc["fresh_support"] = True
        sc["leftover"] = gen_leftover(rng, W, H)
        sc["steps"] += rng.choice([start_seq(rng), [{"op": "clear"}], [{"op": "stop"}] + start_seq(rng),
                                   [{"op": "clear"}, {"op": "stop"}] + start_seq(rng)])
    elif term != "other" and rng.random() < 0.15:
        # the screen is started (with or without the alternate buffer) on a terminal holding another program's images
        sc["leftover"] = gen_leftover(rng, W, H)
        sc["steps"] += start_seq(rng)
    layout = (gen_caption_columns(rng, nw, W, H) if term != "other" and rng.random() < 0.25
              else gen_box(rng, nw, W, H))
    if H >= 4 and rng.random() < 0.4:
        layout = ["hpile", [[None, (gen_caption_columns(rng, nw, W, H - 1) if term != "other" and rng.random() < 0.25
                                    else gen_box(rng, nw, W, H - 1))], [1, ["fill", "0"]]]]
    n = rng.randrange(5 if layout[0] == "fcols" else 2, 9 if tier == "quick" else 14)
    for i in range(n):
        r = rng.random()
        if i and r < 0.03:
            sc["steps"].append({"op": "clear"})
        elif i and r < 0.08 and i < n - 1:
            # urwid's "redraw screen": clear(), then the very same (cached) canvas object is drawn again;
            # what matters is the next redraw, where images move
            sc["steps"].append({"op": "clear"})
            sc["steps"].append({"op": "draw", "same": True})
        elif i and r < 0.12 and i < n - 1:
            # SIGWINCH pending: the layout changes and a frame is drawn (and discarded) before the 'window
            # resize' input is processed; then the size turns out unchanged (same cached canvas) or not (new one)
            layout = mutate(rng, layout, nw, W, H)
            sc["steps"] += [{"op": "sigwinch"}, {"op": "draw", "layout": layout}, {"op": "resize_done"}]
            if rng.random() < 0.7:
                sc["steps"].append({"op": "draw", "same": True})
        elif i and r < 0.14:
            sc["steps"].append({"op": "stop"})
            if term != "other" and rng.random() < 0.6:
                sc["steps"].append({"op": "leftover", "pl": gen_leftover(rng, W, H)})
            sc["steps"] += start_seq(rng)
        elif i and r < 0.17:
            sc["steps"].append({"op": "draw", "same": True})
        elif i == n - 1 and r < 0.25:
            # a canvas of the wrong size makes the base class raise: only as the last step (what the
            # screen shows after the caller broke draw_screen's precondition is not judged)
            sc["steps"].append({"op": "draw", "layout": layout, "badsize": True})
        elif i and r < 0.25 and not any(st["op"] == "clear_images" for st in sc["steps"]):
            # at most one explicit clear per history (docs/C18.md: the 3-cycle of disguises collides when a
            # widget is cleared 3 times between two emissions of a row; a redraw of an unchanged — possibly
            # cached — canvas emits nothing, so "between two redraws" cannot be decided when generating)
            sc["steps"].append({"op": "clear_images", "now": rng.random() < 0.5,
                                "widgets": [rng.randrange(nw) for _ in range(rng.choice([0, 0, 0, 1, 2, 3]))]})
        else:
            if i and sc["steps"][-1]["op"] == "clear_images" and is_status(layout) and rng.random() < 0.7:
                # right after an explicit clear: only the status line changes — the image widgets neither
                # move nor re-render, yet their lines must be sent again
                layout = ["hpile", [layout[1][0], [1, ["fill", rng.choice([c for c in "01234" if c != layout[1][1][1][1]])]]]]
            elif i:
                layout = mutate(rng, layout, nw, W, H)
            sc["steps"].append({"op": "draw", "layout": layout})
    return sc
