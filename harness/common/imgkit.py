"""Deterministic synthetic source images for the render checks (spec dict → PIL image)."""
from __future__ import annotations

import random

from PIL import Image

MODES = ["1", "L", "LA", "P", "PA", "RGB", "RGBA", "CMYK", "HSV", "P-rgba"]
PATTERNS = ["uniform", "runs", "random", "alpha-steps", "two-tone", "single-px", "soft-edge", "soft-edge", "half-noise"]


def random_image_spec(rng: random.Random, max_side: int = 24) -> dict:
    return {
        "w": rng.choice([1, 1, 2, 3, rng.randrange(1, max_side + 1), rng.randrange(1, max_side + 1)]),
        "h": rng.choice([1, 1, 2, 3, rng.randrange(1, max_side + 1), rng.randrange(1, max_side + 1)]),
        "mode": rng.choice(MODES + ["RGB", "RGBA", "RGBA"]),
        "pattern": rng.choice(PATTERNS),
        "iseed": rng.randrange(1 << 30),
    }


def _rgba_pixels(d: dict):
    rng = random.Random(d["iseed"])
    w, h, pat = d["w"], d["h"], d["pattern"]
    n = w * h
    pal = [tuple(rng.randrange(256) for _ in range(3)) for _ in range(4)] + [(0, 0, 0), (255, 255, 255), (16, 32, 48)]
    alphas = [0, 1, 101, 102, 127, 128, 254, 255]
    if pat == "uniform":
        c = rng.choice(pal) + (rng.choice(alphas + [255, 255]),)
        return [c] * n
    if pat == "runs":
        out = []
        if d.get("force_color"):
            pal = pal + [tuple(d["force_color"])] * 6
        while len(out) < n:
            c = rng.choice(pal) + (rng.choice([0, 255, 255, 255, 128]),)
            out += [c] * rng.choice([1, 2, 3, w - 1 or 1, w])
        return out[:n]
    if pat == "alpha-steps":
        c = tuple(d["force_color"]) if d.get("force_color") else rng.choice(pal)
        return [c + (alphas[(i // max(1, rng.choice([1, 2, 3]))) % len(alphas)],) for i in range(n)]
    if pat == "soft-edge":
        # one pixel row varies in RGB while (nearly) transparent, the neighbouring row is a flat opaque colour
        flat = rng.choice(pal) + (255,)
        lowa = rng.choice([0, 1, 50, 50, 101, 101])
        which = rng.randrange(2)
        out = []
        for y in range(h):
            for x in range(w):
                if y % 2 == which:
                    out.append(tuple(rng.randrange(256) for _ in range(3)) + (lowa if rng.random() < 0.8 else 255,))
                else:
                    out.append(flat)
        return out
    if pat == "half-noise":
        # flat (compressible) rows followed by noise (incompressible) rows, or the other way round
        flat = rng.choice(pal) + (255,)
        first_flat = rng.random() < 0.7
        out = []
        for y in range(h):
            is_flat = (y < h // 2) == first_flat
            for x in range(w):
                out.append(flat if is_flat else tuple(rng.randrange(256) for _ in range(3)) + (255,))
        return out
    if pat == "two-tone":
        a, b = rng.choice(pal), rng.choice(pal)
        return [(a if (i // w + i % w) % 2 else b) + (255,) for i in range(n)]
    if pat == "single-px":
        base = rng.choice(pal) + (255,)
        out = [base] * n
        k = rng.randrange(n)
        out[k] = rng.choice(pal) + (rng.choice([0, 255]),)
        return out
    return [tuple(rng.randrange(256) for _ in range(3)) + (rng.choice(alphas),) for _ in range(n)]


def make_image(d: dict) -> Image.Image:
    img = Image.new("RGBA", (d["w"], d["h"]))
    img.putdata(_rgba_pixels(d))
    mode = d["mode"]
    if mode == "RGBA":
        return img
    if mode == "PA":
        p = img.convert("P")
        out = Image.merge("PA", (p, img.getchannel("A"))) if hasattr(Image, "merge") else p
        try:
            out.load()
            return out
        except Exception:
            return p
    if mode == "P-rgba":
        # a palette image whose transparency lives in an RGBA palette (no info["transparency"]),
        # as Image.quantize() of an RGBA image produces
        try:
            return img.quantize(colors=64, method=Image.Quantize.FASTOCTREE)
        except Exception:
            return img
    if mode == "LA":
        return img.convert("LA")
    if mode in ("CMYK", "HSV", "1", "L", "P", "RGB"):
        return img.convert("RGB").convert(mode)
    return img
