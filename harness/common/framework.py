"""Common check pipeline (DESIGN.md §3.2).

A property module (harness/cXX.py) defines a subclass of `Property` and calls `main(PropClass)`.

Pipeline of one run:
  1. translator: regenerate the property's Lean constants from the *imported* package
  2. lake build of the property's theorem module(s) and of its driver
  3. audit: grep gate + `#print axioms` of every property theorem
  4. correspondence: corpus + generated cases; model (Lean driver) vs implementation (real code)
  5. oracle on every case (direct statement of the property on the implementation's behaviour)
  6. if 2 or 4 broke: failing-input search (shrunk disagreeing cases + targeted search)
  7. verdict + evidence + known-findings filter
Exit codes: 0 held, 1 VIOLATION, 2 infrastructure problem (audit failure, timeout, crash).
"""
from __future__ import annotations

import argparse
import fcntl
import hashlib
import json
import os
import random
import re
import shutil
import subprocess
import tempfile
import sys
import time
import traceback
import warnings
from dataclasses import dataclass, field
from pathlib import Path
from typing import Any, Iterable, Optional

VERIF = Path(__file__).resolve().parents[2]
LEAN_DIR = VERIF / "lean"
REPO = Path(os.environ.get("VERIF_REPO", "/repo"))
# VERIF_EVIDENCE_DIR / VERIF_REPLAY_DIR: only for evaluating seeded changes against a scratch worktree
# (tools_seed.sh), so that such runs never overwrite the evidence of /repo itself
EVIDENCE_DIR = Path(os.environ.get("VERIF_EVIDENCE_DIR") or VERIF / "evidence")
REPLAY_DIR = Path(os.environ.get("VERIF_REPLAY_DIR") or VERIF / "replays")
CORPUS_DIR = VERIF / "harness" / "corpus"
KNOWN_FINDINGS = VERIF / "known_findings.txt"
ALLOWED_AXIOMS = {"propext", "Classical.choice", "Quot.sound"}
FORBIDDEN = re.compile(
    r"\bsorry\b|\badmit\b|^\s*axiom\s|native_decide|bv_decide|implemented_by|\bunsafe\s|maxHeartbeats\s+0\b"
)

TRUSTED_BASE = [
    "Lean 4.33.0 kernel; axioms allowed in property theorems: propext, Classical.choice, Quot.sound "
    "(checked by `#print axioms` on every run; no native_decide, bv_decide, sorry, or axioms of ours)",
    "translator: the per-property gen_constants() reading live Python objects of the imported package",
    "correspondence harness: case generators, canonicalisation, Lean driver's parsing of op lines",
    "terminal model TIV.Common.Term (a definition of what ECMA-48/xterm, kitty and iTerm2 protocols do)",
    "modelled, not verified: Pillow, zlib, CPython `re`/generators/try-finally/refcounting, urwid, "
    "termios/select/os.read, threading/multiprocessing locks, IEEE-754 binary64 (re-implemented exactly)",
]


def setup_import_path() -> None:
    """Make `import term_image` resolve to /repo's current working tree."""
    src = str(REPO / "src")
    if src not in sys.path:
        sys.path.insert(0, src)
    warnings.simplefilter("ignore")
    os.environ.setdefault("TERM_IMAGE_VERIF", "1")


# --------------------------------------------------------------------------------------
# data classes


@dataclass
class Case:
    """One correspondence case = one driver request line + what the harness needs to run the
    real code on the same input."""

    line: str  # "<op> <args...>" (the property id is prefixed by the framework)
    data: Any = None  # whatever impl()/oracle() need (must be JSON-serialisable for replays)
    kind: str = "gen"  # histogram bucket (branch / shape of the case)
    nontrivial: bool = True
    orig: Optional[str] = None  # the generator's line, before impl() possibly rewrote `line` into the model request

    def key(self) -> str:
        return hashlib.sha1(self.line.encode()).hexdigest()[:16]


@dataclass
class Failure:
    """A concrete input/history on which the real code violates the property."""

    key: str  # stable identification (used by known_findings.txt)
    what: str
    case: Optional[Case] = None
    extra: Any = None


@dataclass
class Mismatch:
    case: Case
    model: str
    impl: str


class Property:
    id = "C00"
    title = ""
    lean_props = []  # e.g. ["TIV.C03.Props"]  — modules holding the property theorems
    driver = None  # e.g. "drv_c03" (lean_exe target) — None: no executable model ops
    level_note = ""
    assumptions: list[str] = []
    partial = ""  # what is not carried by the theorem
    quick_cases = 2000
    thorough_cases = 40000

    # -- translator -------------------------------------------------------------------
    def gen_constants(self) -> dict[str, str]:
        """Return {relative lean path under lean/: file content} regenerated from the live code."""
        return {}

    # -- correspondence ---------------------------------------------------------------
    def generate(self, rng: random.Random, tier: str) -> Iterable[Case]:
        return []

    def impl(self, case: Case) -> str:
        """Run the real code on the case; return the canonical result string in the driver's format
        (`ok …` / `err <Enum>`)."""
        raise NotImplementedError

    def oracle(self, case: Case, impl_result: str) -> Optional[Failure]:
        """Direct statement of the property on the implementation's behaviour for this case."""
        return None

    def search(self, rng: random.Random, tier: str, reasons: list[str]) -> list[Failure]:
        """Targeted failing-input search on the real code, run when a tie broke."""
        return []

    def extra_checks(self, rng: random.Random, tier: str, ev: dict) -> list[Failure]:
        """Real-runtime tiers and direct oracle sweeps that are not line-protocol cases."""
        return []

    def shrink(self, case: Case, still_fails) -> Case:
        return case


# --------------------------------------------------------------------------------------
# lean side


class LeanError(Exception):
    pass


def _lock():
    LEAN_DIR.mkdir(exist_ok=True)
    f = open(LEAN_DIR / ".verif.lock", "w")
    fcntl.flock(f, fcntl.LOCK_EX)
    return f


def write_generated(files: dict[str, str]) -> list[str]:
    """Write regenerated constants (only when changed); return list of files that differ from git HEAD."""
    changed = []
    for rel, content in files.items():
        p = LEAN_DIR / rel
        old = p.read_text() if p.exists() else None
        if old != content:
            p.parent.mkdir(parents=True, exist_ok=True)
            p.write_text(content)
        try:
            base = subprocess.run(
                ["git", "-C", str(VERIF), "show", f"HEAD:lean/{rel}"],
                capture_output=True, text=True, timeout=30,
            )
            if base.returncode == 0 and base.stdout != content:
                changed.append(rel)
        except Exception:
            pass
    return changed


def lake_build(targets: list[str], timeout: int = 1500) -> tuple[bool, str]:
    env = dict(os.environ)
    p = subprocess.run(
        ["lake", "build", *targets], cwd=LEAN_DIR, capture_output=True, text=True, timeout=timeout, env=env
    )
    return p.returncode == 0, (p.stdout + p.stderr)


def prop_files(module: str) -> Path:
    return LEAN_DIR / (module.replace(".", "/") + ".lean")


def list_theorems(module: str) -> list[str]:
    """Fully qualified names of theorems declared in a Props module."""
    src = prop_files(module).read_text()
    names = []
    ns: list[str] = []
    for line in src.splitlines():
        m = re.match(r"^namespace\s+(\S+)", line)
        if m:
            ns.append(m.group(1))
            continue
        m = re.match(r"^end\s+(\S+)", line)
        if m and ns and ns[-1] == m.group(1):
            ns.pop()
            continue
        m = re.match(r"^(?:@\[[^\]]*\]\s*)?(?:private\s+|protected\s+)?theorem\s+([^\s:({\[]+)", line)
        if m:
            names.append(".".join(ns + [m.group(1)]))
    return names


def strip_comments(src: str) -> str:
    # remove block comments (nested) and line comments
    out = []
    i, depth = 0, 0
    while i < len(src):
        if src.startswith("/-", i):
            depth += 1
            i += 2
        elif depth and src.startswith("-/", i):
            depth -= 1
            i += 2
        elif depth:
            if src[i] == "\n":
                out.append("\n")
            i += 1
        elif src.startswith("--", i):
            while i < len(src) and src[i] != "\n":
                i += 1
        else:
            out.append(src[i])
            i += 1
    return "".join(out)


def module_closure(module: str) -> list[Path]:
    """All TIV source files the module (transitively) imports."""
    seen, todo, files = set(), [module], []
    while todo:
        m = todo.pop()
        if m in seen or not m.startswith("TIV"):
            continue
        seen.add(m)
        f = prop_files(m)
        if not f.exists():
            continue
        files.append(f)
        for line in f.read_text().splitlines():
            mm = re.match(r"^\s*(?:public\s+)?import\s+(\S+)", line)
            if mm:
                todo.append(mm.group(1))
    return files


def audit(modules: list[str]) -> tuple[bool, dict]:
    """grep gate over the import closure + `#print axioms` of every property theorem."""
    info: dict[str, Any] = {"theorems": {}, "grep_hits": []}
    ok = True
    for m in modules:
        for f in module_closure(m):
            for n, line in enumerate(strip_comments(f.read_text()).splitlines(), 1):
                if FORBIDDEN.search(line):
                    info["grep_hits"].append(f"{f.relative_to(LEAN_DIR)}:{n}: {line.strip()}")
                    ok = False
    thms = []
    for m in modules:
        thms += [(m, t) for t in list_theorems(m)]
    if not thms:
        info["error"] = "no theorems found"
        return False, info
    src = "".join(f"import {m}\n" for m in modules) + "".join(f"#print axioms {t}\n" for _, t in thms)
    tmp = LEAN_DIR / f".audit_{os.getpid()}.lean"
    tmp.write_text(src)
    try:
        p = subprocess.run(
            ["lake", "env", "lean", str(tmp.name)], cwd=LEAN_DIR, capture_output=True, text=True, timeout=900
        )
    finally:
        tmp.unlink(missing_ok=True)
    out = p.stdout + p.stderr
    if p.returncode != 0:
        info["error"] = out[-2000:]
        return False, info
    # parse: "'name' depends on axioms: [a, b]" / "'name' does not depend on any axioms"
    for mm in re.finditer(r"'([^']+)' (does not depend on any axioms|depends on axioms: \[([^\]]*)\])", out):
        name = mm.group(1)
        axs = [a.strip() for a in (mm.group(3) or "").replace("\n", " ").split(",") if a.strip()]
        info["theorems"][name] = axs
        if not set(axs) <= ALLOWED_AXIOMS:
            ok = False
    missing = [t for _, t in thms if t not in info["theorems"]]
    if missing:
        info["missing"] = missing
        ok = False
    return ok, info


def driver_path(name: str) -> Path:
    return LEAN_DIR / ".lake" / "build" / "bin" / name


def run_driver(name: str, lines: list[str], timeout: int = 1800) -> list[str]:
    exe = driver_path(name)
    if not exe.exists():
        raise LeanError(f"driver {name} not built")
    inp = "\n".join(lines) + "\n"
    p = subprocess.run([str(exe)], input=inp, capture_output=True, text=True, timeout=timeout)
    if p.returncode != 0:
        raise LeanError(f"driver exit {p.returncode}: {p.stderr[-500:]}")
    out = p.stdout.split("\n")
    if out and out[-1] == "":
        out.pop()
    if len(out) != len(lines):
        raise LeanError(f"driver returned {len(out)} lines for {len(lines)} requests")
    return out


# --------------------------------------------------------------------------------------
# known findings


def load_known_findings(pid: str) -> tuple[list[tuple[str, str]], list[str]]:
    findings, fixed = [], []
    if KNOWN_FINDINGS.exists():
        for line in KNOWN_FINDINGS.read_text().splitlines():
            line = line.strip()
            m = re.match(r"finding:\s+property=(\S+)\s+key=(\S+)\s+(.*)", line)
            if m and m.group(1) == pid:
                findings.append((m.group(2), m.group(3)))
            m = re.match(r"fixed:\s+property=(\S+)\s+(.*)", line)
            if m and m.group(1) == pid:
                fixed.append(m.group(2))
    return findings, fixed


# --------------------------------------------------------------------------------------
# pipeline


def _case_json(c: Case) -> dict:
    """a case as it must be fed back to generate a replay: the generator's own line and data
    (keys starting with `_` are scratch values written by impl()), plus the final model request"""
    data = c.data
    if isinstance(data, dict):
        data = {k: v for k, v in data.items() if not str(k).startswith("_")}
    return {"line": c.orig if c.orig is not None else c.line, "data": data, "kind": c.kind,
            "request": (c.line or "")[:4000]}


def load_corpus(pid: str) -> list[Case]:
    d = CORPUS_DIR / pid
    cases = []
    if d.is_dir():
        for f in sorted(d.glob("*.json")):
            j = json.loads(f.read_text())
            cases.append(Case(line=j["line"], data=j.get("data"), kind=j.get("kind", "corpus"), nontrivial=True))
    return cases


def run_check(prop: Property, tier: str, seed: int, replay: Optional[str] = None) -> int:
    t0 = time.time()
    pid = prop.id
    rng = random.Random(seed * 1000003 + int(pid[1:]))
    ev: dict[str, Any] = {
        "property_id": pid, "tier": tier, "seed": seed, "level": "proof",
        "coverage": {}, "assumptions": list(prop.assumptions), "wall_s": 0.0, "violations": 0,
    }
    cov = ev["coverage"]
    reasons: list[str] = []  # broken ties
    failures: list[Failure] = []
    infra: list[str] = []
    setup_import_path()

    # 1-3: translator, build, audit ---------------------------------------------------
    lock = _lock()
    try:
        try:
            gen = prop.gen_constants()
        except Exception as e:  # the translator could not read the code: a tie is broken
            gen = None
            reasons.append(f"translator: {type(e).__name__}: {e}")
            cov["translator_error"] = traceback.format_exc()[-1500:]
        if gen is not None:
            cov["generated_files"] = sorted(gen)
            cov["generated_diff_vs_committed"] = write_generated(gen)
        targets = list(prop.lean_props) + ([prop.driver] if prop.driver else [])
        ok, out = lake_build(targets)
        cov["checker_cmd"] = f"cd lean && lake build {' '.join(targets)} && lake env lean <#print axioms of every theorem>"
        build_errors = []
        if not ok:
            build_errors = re.findall(r"^error: .*$", out, flags=re.M)[:20]
            reasons.append("lean build failed: " + "; ".join(e[:300] for e in build_errors[:5]))
            cov["build_log_tail"] = out[-3000:]
        thm_names = []
        for m in prop.lean_props:
            try:
                thm_names += list_theorems(m)
            except FileNotFoundError:
                infra.append(f"missing module {m}")
        cov["obligations"] = len(thm_names)
        cov["theorems"] = thm_names
        if ok:
            aok, ainfo = audit(prop.lean_props)
            cov["axioms"] = ainfo.get("theorems", {})
            if not aok:
                infra.append("audit failed: " + json.dumps({k: v for k, v in ainfo.items() if k != "theorems"})[:1500])
                cov["discharged"] = 0
            else:
                cov["discharged"] = len(thm_names)
        else:
            cov["discharged"] = 0
        driver_ok = bool(prop.driver) and driver_path(prop.driver).exists() and (ok or lake_build([prop.driver])[0])
        if ok and tier == "thorough" and not replay:
            # independent re-check of the compiled theorem modules (and everything they import)
            try:
                lc = subprocess.run(["lake", "env", "leanchecker", *prop.lean_props], cwd=LEAN_DIR,
                                    capture_output=True, text=True, timeout=1800)
                cov["leanchecker"] = {"modules": list(prop.lean_props), "exit": lc.returncode,
                                      "output_tail": (lc.stdout + lc.stderr)[-400:]}
                if lc.returncode != 0:
                    infra.append("leanchecker rejected the compiled modules: " + (lc.stdout + lc.stderr)[-800:])
            except subprocess.TimeoutExpired:
                infra.append("leanchecker timed out")
    finally:
        lock.close()
    cov["trusted_base"] = TRUSTED_BASE + ([f"not carried by the theorems: {prop.partial}"] if prop.partial else [])

    # 4-5: correspondence + oracle ----------------------------------------------------
    covmeter = _coverage_start()
    n_target = prop.quick_cases if tier == "quick" else prop.thorough_cases
    cases: list[Case] = []
    if replay:
        j = json.loads(Path(replay).read_text())
        for c in j.get("cases", []):
            cases.append(Case(line=c["line"], data=c.get("data"), kind=c.get("kind", "replay")))
    else:
        cases += load_corpus(pid)
        try:
            for c in prop.generate(rng, tier):
                cases.append(c)
                if len(cases) >= n_target:
                    break
        except Exception:
            infra.append("generator crashed: " + traceback.format_exc()[-1500:])
    hist: dict[str, int] = {}
    mismatches: list[Mismatch] = []
    impl_results: list[str] = []
    for c in cases:
        hist[c.kind] = hist.get(c.kind, 0) + 1
        c.orig = c.line
        try:
            r = prop.impl(c)
        except Exception as e:
            r = f"harness-exc {type(e).__name__}: {e}"
            infra.append(f"impl runner crashed on `{c.line[:200]}`: {traceback.format_exc()[-800:]}")
        impl_results.append(r)
    model_results: list[Optional[str]] = [None] * len(cases)
    if prop.driver and cases:
        if driver_ok:
            try:
                model_results = run_driver(prop.driver, [f"{c.line}" for c in cases])
            except Exception as e:
                reasons.append(f"driver failed: {e}")
        else:
            reasons.append("model driver does not build")
    validated = 0
    for c, mr, ir in zip(cases, model_results, impl_results):
        if mr is None:
            continue
        if mr != ir:
            mismatches.append(Mismatch(c, mr, ir))
        else:
            validated += 1
    if mismatches:
        reasons.append(f"correspondence: model != implementation on {len(mismatches)} of {len(cases)} cases")
    err_hist: dict[str, int] = {}
    for r in impl_results:
        k = r.split(" ", 2)[0] if not r.startswith("err") else " ".join(r.split(" ")[:2])
        err_hist[k] = err_hist.get(k, 0) + 1
    for c, ir in zip(cases, impl_results):
        try:
            f = prop.oracle(c, ir)
        except Exception:
            infra.append(f"oracle crashed on `{c.line[:200]}`: {traceback.format_exc()[-800:]}")
            f = None
        if f is not None:
            f.case = f.case or c
            failures.append(f)
    try:
        failures += prop.extra_checks(rng, tier, ev)
    except Exception:
        infra.append("extra_checks crashed: " + traceback.format_exc()[-1500:])

    # 6: failing-input search when a tie broke -----------------------------------------
    if reasons and not failures:
        try:
            failures += prop.search(rng, tier, reasons)
        except Exception:
            infra.append("search crashed: " + traceback.format_exc()[-1500:])

    # 7: verdict ----------------------------------------------------------------------
    _coverage_report(covmeter, pid)
    distinct = {c.key() for c in cases if c.nontrivial}
    cov.update(
        evaluations=len(cases), distinct_nontrivial=len(distinct),
        traces_validated_against_impl=validated,
        rule=getattr(prop, "rule", "") or "cases are generated from one PRNG state derived from VERIF_SEED; "
        "a case is non-trivial when the generator marks it so (it reaches the modelled branch it was built for) and distinct by the hash of its request line",
        samples=[{"line": c.line[:400], "impl": r[:200]} for c, r in list(zip(cases, impl_results))[:3]]
        + [{"line": c.line[:400], "impl": r[:200]} for c, r in list(zip(cases, impl_results))[-2:]],
        case_kinds=hist, result_kinds=err_hist, mismatches=len(mismatches), broken_ties=reasons,
    )
    known, fixed = load_known_findings(pid)
    out_lines: list[str] = []
    new_failures: list[Failure] = []
    seen_keys = set()
    for f in failures:
        if f.key in seen_keys:
            continue
        seen_keys.add(f.key)
        hit = [k for k, _ in known if re.fullmatch(k, f.key)]
        if hit:
            out_lines.append(f"KNOWN-FINDING: property={pid} key={f.key} {f.what}")
        else:
            new_failures.append(f)
    REPLAY_DIR.mkdir(exist_ok=True)
    rc = 0
    nviol = 0
    for i, f in enumerate(new_failures[:10]):
        path = REPLAY_DIR / (f"{pid}-replayed-{i}.json" if replay else f"{pid}-{seed}-{i}.json")
        path.write_text(json.dumps({
            "property": pid, "key": f.key, "what": f.what, "seed": seed, "tier": tier,
            "cases": [_case_json(f.case)] if f.case else [],
            "extra": f.extra, "broken_ties": reasons,
            "rerun": f"./check {pid} --replay {path}",
        }, indent=1, default=str))
        out_lines.append(f"VIOLATION property={pid} replay={path}")
        nviol += 1
        rc = 1
    if reasons and not new_failures:
        # a tie is broken and no *new* failing input was found
        known_only = bool(failures) and not mismatches and all("lean build" not in r and "translator" not in r for r in reasons)
        if not known_only:
            path = REPLAY_DIR / (f"{pid}-replayed-tie.json" if replay else f"{pid}-{seed}-tie.json")
            path.write_text(json.dumps({
                "property": pid, "broken_ties": reasons,
                "build_errors": cov.get("build_log_tail", "")[-3000:],
                "cases": [dict(_case_json(m.case), model=m.model[:2000], impl=m.impl[:2000]) for m in mismatches[:10]],
                "note": "the theorem or correspondence named above no longer checks; no failing input found",
                "seed": seed, "tier": tier,
            }, indent=1, default=str))
            out_lines.append(f"VIOLATION property={pid} replay={path} no-failing-input-found")
            nviol += 1
            rc = 1
    if infra:
        for s in infra[:5]:
            out_lines.append(f"INFRA property={pid} {s[:2000]}")
        if rc == 0:
            rc = 2
    ev["violations"] = nviol
    ev["wall_s"] = round(time.time() - t0, 2)
    cov["known_findings_reported"] = [l for l in out_lines if l.startswith("KNOWN-FINDING")]
    cov["infra"] = infra[:5]
    if rc == 2:
        cov["discharged"] = min(cov.get("discharged", 0), cov.get("obligations", 0))
    if not cov.get("discharged"):
        # no theorem was re-checked on this run (the build or the audit failed): say so without the proof-level
        # keys, so that the file stays schema-valid through its exploration-style counts
        cov["theorems_discharged_this_run"] = 0
        cov.pop("discharged", None)
        cov["distinct_nontrivial"] = max(cov.get("distinct_nontrivial", 0), 0)
    EVIDENCE_DIR.mkdir(exist_ok=True)
    (EVIDENCE_DIR / f"{pid}.json").write_text(json.dumps(ev, indent=1, default=str))
    for l in out_lines:
        print(l)
    print(f"[{pid}] tier={tier} seed={seed} theorems={cov.get('discharged')}/{cov.get('obligations')} "
          f"cases={len(cases)} validated={validated} mismatches={len(mismatches)} failures={len(failures)} "
          f"ties_broken={len(reasons)} wall={ev['wall_s']}s exit={rc}")
    return rc


def _coverage_start():
    """VERIF_COVERAGE=1 (diagnostic, see tools_coverage.sh): measure which lines of the anchored source the
    correspondence cases, oracles and searches of this run execute - where the generator never goes, the tie is blind"""
    if not os.environ.get("VERIF_COVERAGE"):
        return None
    os.environ.setdefault("COVERAGE_CORE", "sysmon")  # leaves sys.settrace to the harnesses that force schedules
    import coverage
    c = coverage.Coverage(data_file=None, source=[str(REPO / "src" / "term_image")], branch=False)
    c.start()
    return c


def _coverage_report(c, pid: str) -> None:
    if c is None:
        return
    c.stop()
    prop = next((json.loads(l) for l in (VERIF / "properties.jsonl").read_text().splitlines()
                 if l.strip() and json.loads(l)["id"] == pid), None)
    out = {"property": pid, "mechanisms": []}
    import_time = re.compile(r"^(async def |def |class |@|[A-Za-z_][A-Za-z_0-9]*\s*:\s*[^=]+$)")
    for m in (prop or {}).get("anchors", {}).get("mechanism", []):
        for where in [w.strip() for w in m["where"].split(";") if w.strip()]:
            fn, _, ranges = where.partition(":")
            path = REPO / fn
            try:
                _, executable, _, missing, _ = c.analysis2(str(path))
                src = path.read_text().splitlines()
                rs = []
                for r in ranges.split(","):
                    a, _, b = r.strip().partition("-")
                    rs.append((int(a), int(b or a)))
            except Exception as e:  # noqa: BLE001
                out["mechanisms"].append({"name": m["name"], "where": where, "error": str(e)})
                continue
            inr = lambda n: any(a <= n <= b for a, b in rs)  # noqa: E731
            # definitions run at import time, before the meter starts: not counted
            live = lambda n: not import_time.match(src[n - 1].strip())  # noqa: E731
            ex = [n for n in executable if inr(n) and live(n)]
            ms = [n for n in missing if inr(n) and live(n)]
            out["mechanisms"].append({"name": m["name"], "where": where, "executable": len(ex), "missed": len(ms),
                                      "missed_lines": [f"{n}: {src[n - 1].strip()[:110]}" for n in ms]})
    d = Path(os.environ.get("VERIF_COVERAGE_DIR") or VERIF / "coverage")
    d.mkdir(exist_ok=True)
    (d / f"{pid}.json").write_text(json.dumps(out, indent=1))
    for m in out["mechanisms"]:
        print(f"COVERAGE {pid} {m['where']} missed {m.get('missed')}/{m.get('executable')}  ({m['name'][:60]})")


def _crash_evidence(pid: str, tier: str, seed: int, why: str) -> None:
    """the run did not get as far as writing its evidence: leave a valid file saying so"""
    try:
        EVIDENCE_DIR.mkdir(exist_ok=True)
        (EVIDENCE_DIR / f"{pid}.json").write_text(json.dumps({
            "property_id": pid, "tier": tier, "seed": seed, "level": "other",
            "coverage": {"explanation": "infrastructure failure before the check completed (exit 2): " + why},
            "wall_s": 0.0, "violations": 0}, indent=1))
    except Exception:
        pass


# scratch directories made by this process (source images, downloads): the run ends with os._exit, which skips
# atexit handlers, so they are recorded here and removed by main()
_SCRATCH_DIRS = []
_real_mkdtemp = tempfile.mkdtemp


def _recording_mkdtemp(*a, **k):
    path = _real_mkdtemp(*a, **k)
    _SCRATCH_DIRS.append(path)
    return path


tempfile.mkdtemp = _recording_mkdtemp


def main(prop_cls) -> None:
    ap = argparse.ArgumentParser()
    ap.add_argument("--tier", default=os.environ.get("VERIF_TIER", "quick"), choices=["quick", "thorough"])
    ap.add_argument("--seed", type=int, default=int(os.environ.get("VERIF_SEED", "0") or 0))
    ap.add_argument("--replay", default=None)
    a = ap.parse_args()
    try:
        rc = run_check(prop_cls(), a.tier, a.seed, a.replay)
    except subprocess.TimeoutExpired as e:
        print(f"INFRA property={prop_cls.id} timeout: {e}")
        rc = 2
        _crash_evidence(prop_cls.id, a.tier, a.seed, f"timeout: {e}")
    except Exception:
        print(f"INFRA property={prop_cls.id} crashed: {traceback.format_exc()[-3000:]}")
        rc = 2
        _crash_evidence(prop_cls.id, a.tier, a.seed, traceback.format_exc()[-1500:])
    sys.stdout.flush()
    for path in _SCRATCH_DIRS:
        shutil.rmtree(path, ignore_errors=True)
    os._exit(rc)
