"""Controlled terminal environment for checks that do not exercise the query layer itself.

Same technique as the repository's own tests/__init__.py: the query functions of
`term_image.utils` are replaced *before* `term_image.image` (and friends) are imported, so
their `from ..utils import …` pick up the controllable versions. Import this module before
anything from term_image other than the package itself.
"""
from __future__ import annotations

import os
import sys

from . import framework

framework.setup_import_path()

import term_image  # noqa: E402
import term_image.geometry  # noqa: E402
import term_image.utils as _utils  # noqa: E402

state = {
    "term_size": (80, 30),
    "cell_size": None,  # None or (w, h)
    "name_version": ("", ""),
    "fg_bg": [(0, 0, 0), (0, 0, 0)],
    "is_on_kitty": False,
}

_real = {
    n: getattr(_utils, n)
    for n in ("get_terminal_size", "get_cell_size", "get_terminal_name_version", "get_fg_bg_colors")
}


def get_terminal_size():
    return os.terminal_size(state["term_size"])


def get_cell_size():
    cs = state["cell_size"]
    return None if cs is None else term_image.geometry.Size(*cs)


def get_terminal_name_version():
    # `is_on_kitty` = "the terminal identifies itself as kitty": the library's own `TextImage._is_on_kitty()` runs
    # on top of this answer (it is NOT replaced), so a change to how it decides is seen by the checks
    name, version = state["name_version"]
    if state["is_on_kitty"] and not name:
        return ("kitty", version or "0.30.0")
    return (name, version)


def get_fg_bg_colors(*, hex=False):
    fg_bg = state["fg_bg"]
    return (
        tuple(rgb and "#" + "".join(f"{x:02x}" for x in rgb) for rgb in fg_bg)
        if hex
        else tuple(fg_bg)
    )


def _is_on_kitty():
    return state["is_on_kitty"]


for _f in (get_terminal_name_version, get_fg_bg_colors):
    _f._invalidate_cache = lambda: None

_utils.get_terminal_size = get_terminal_size
_utils.get_cell_size = get_cell_size
term_image.get_cell_size = get_cell_size
_utils.get_terminal_name_version = get_terminal_name_version
_utils.get_fg_bg_colors = get_fg_bg_colors

import term_image.image  # noqa: E402
import term_image.image.common as _common  # noqa: E402

term_image.image.GraphicsImage._supported = True


def set_env(term_size=None, cell_size=..., name=None, version="", fg=..., bg=..., is_on_kitty=None):
    if term_size is not None:
        state["term_size"] = tuple(term_size)
    if cell_size is not ...:
        state["cell_size"] = None if cell_size is None else tuple(cell_size)
        term_image.AutoCellRatio.is_supported = None
    if name is not None:
        state["name_version"] = (name, version)
        # the styles cache the terminal identity in class attributes
        term_image.image.ITerm2Image._TERM = name
        term_image.image.ITerm2Image._TERM_VERSION = version
        term_image.image.KittyImage._TERM = name
        term_image.image.KittyImage._TERM_VERSION = version
    if fg is not ...:
        state["fg_bg"][0] = fg
    if bg is not ...:
        state["fg_bg"][1] = bg
    if is_on_kitty is not None:
        state["is_on_kitty"] = bool(is_on_kitty)


def reset_env():
    set_env(term_size=(80, 30), cell_size=None, name="", version="", fg=(0, 0, 0), bg=(0, 0, 0), is_on_kitty=False)
    term_image._cell_ratio = 0.5 if hasattr(term_image, "_cell_ratio") else None
