"""py2lean — regenerate Lean definitions from the *live* Python source of pure integer/boolean kernels.

    tr = Translator("TIV.C05.Translated", origin="harness/c05.py")
    tr.add(Fn(py=AlignedPadding._get_exact_dimensions_, lean="get_exact_dimensions",
              params=[("relative", BOOL), ("width", INT), …, ("render_size", (INT, INT))],
              rewrite={"self.relative": "relative", "astuple(self)[:4]": "(width, height, h_align, v_align)"}))
    files["TIV/C05/Translated.lean"] = tr.render()

The source is read with `inspect.getsource` from the function *object* the imported package holds,
parsed with `ast`, optionally narrowed to a fragment (`pick=`), rewritten by the declared `rewrite`
table (attribute reads / object plumbing -> parameters; every entry must match, otherwise the source
changed and the translation fails), and translated statement by statement.  Everything outside the
subset raises `Untranslatable` — the framework reports that as a broken tie.  Nothing is skipped.

Subset and semantics (see docs/translator.md):
  int            -> Int            literals are emitted as `(n : Int)`
  + - * unary -  -> the same on Int
  a // b         -> Int.fdiv a b   (floor division; b a non-zero literal, otherwise a hoisted guard
  a % b          -> Int.fmod a b    `if b = 0 then Except.error "ZeroDivisionError"`)
  a << n         -> a * 2 ^ n.toNat (guard `n < 0 -> ValueError` unless n is a literal)
  a >> n         -> Int.fdiv a (2 ^ n)  (same guard)
  a ** b         -> only when both are constants (folded)
  bool           -> Bool in value position, Prop in test position (`if`, `not`, `and`/`or` of tests)
  < <= > >= == != (chained)  -> conjunction of the links;  `x in (a, b)` -> x = a ∨ x = b
  x is E.M / is not          -> x = int(E.M) when E.M is a live IntEnum member
  a and b / a or b on ints   -> if a ≠ 0 then b else a / if a ≠ 0 then a else b
  truthiness of an int in a test -> x ≠ 0
  max / min (n-ary), int(x), ceil/floor/round of an int, operator.mul/add -> Int
  c if t else d, tuples, t[k] (constant k), unpacking, `a = b = e`, `x op= e`
  TABLE[i] (module-level tuple, variable i) -> generated lookup function, guard `IndexError`
  if / elif / else, return, raise X(...) -> Except.error "X", `for i in range(..)` folds
  calls of functions translated earlier in the same Translator (Except results are bound)
A function that can raise (a `raise`, a guard, a call of such a function) has the Lean type
`Except String T`; the string is the exception class name.
"""
from __future__ import annotations

import ast
import builtins
import enum
import inspect
import math
import operator
import random
import textwrap
from dataclasses import dataclass, field
from typing import Any, Callable, Optional

INT = "Int"
BOOL = "Bool"


class Untranslatable(Exception):
    """the source is outside the translated subset, or no longer has the shape the spec names"""


# --------------------------------------------------------------------------------------
# types


def lean_type(t) -> str:
    if t in (INT, BOOL):
        return t
    if isinstance(t, tuple) and len(t) >= 2:
        return " × ".join(lean_type(x) if x in (INT, BOOL) else f"({lean_type(x)})" for x in t)
    raise Untranslatable(f"no Lean type for {t!r}")


def proj(s: str, k: int, n: int) -> str:
    """component k of an n-tuple (right-nested products)"""
    if k < 0:
        k += n
    if not 0 <= k < n:
        raise Untranslatable(f"tuple index {k} out of range for arity {n}")
    return s + ".2" * k + (".1" if k < n - 1 else "")


def lit(n: int) -> str:
    return f"({n} : Int)"


def lean_value(v, t) -> str:
    if t == INT:
        return lit(int(v))
    if t == BOOL:
        return "true" if v else "false"
    return "(" + ", ".join(lean_value(x, tt) for x, tt in zip(v, t)) + ")"


def type_of_value(v):
    if isinstance(v, bool):
        return BOOL
    if isinstance(v, int):
        return INT
    if isinstance(v, tuple) and len(v) >= 2:
        return tuple(type_of_value(x) for x in v)
    raise Untranslatable(f"value {v!r} has no translated type")


RESERVED = {
    "at", "from", "end", "then", "else", "if", "do", "fun", "let", "have", "show", "match", "with", "where", "in",
    "open", "by", "def", "theorem", "example", "namespace", "section", "import", "instance", "structure", "class",
    "inductive", "Type", "Prop", "Sort", "deriving", "mutual", "variable", "universe", "private", "protected",
    "partial", "unsafe", "noncomputable", "macro", "syntax", "notation", "infix", "prefix", "postfix", "set_option",
    "attribute", "export", "extends", "using", "calc", "suffices", "obtain", "return", "for", "unless", "try", "catch",
    "finally", "mut", "nomatch", "nofun", "forall", "exists", "local", "scoped", "abbrev", "axiom", "opaque", "true",
    "false", "max", "min", "default", "id",
}


def mangle(name: str) -> str:
    if name == "_":
        return "_u"
    if name in RESERVED:
        return name + "_"
    return name


# --------------------------------------------------------------------------------------
# spec


@dataclass
class Fn:
    py: Any  # the live function object (functions, staticmethod/classmethod results, properties' fget)
    lean: str  # name of the generated definition
    params: list  # [(name, type)] — the parameters of the generated definition, in order
    rewrite: dict = field(default_factory=dict)  # unparse(node) -> replacement source (expr or statements)
    pick: Optional[Callable] = None  # FunctionDef -> expr node | Lambda node | list of statements
    pick_doc: str = ""  # what `pick` selects, in words (goes into the header)
    outputs: Optional[list] = None  # statement fragment: the names returned after its last statement
    exc: dict = field(default_factory=dict)  # callee source in `raise callee(...)` -> exception class name
    tuple_ctors: tuple = ()  # global names that build a plain tuple of their positional arguments
    samples: int = 24  # translation-validation samples (0 = none)
    domain: Optional[Callable] = None  # random.Random -> dict of arguments (default: small ints / bools)
    note: str = ""


def unwrap(f):
    f = getattr(f, "__func__", f)
    if isinstance(f, property):
        f = f.fget
    while hasattr(f, "__wrapped__"):
        f = f.__wrapped__
    return f


def norm_key(src: str) -> str:
    try:
        return ast.unparse(ast.parse(src, mode="eval").body)
    except SyntaxError:
        return ast.unparse(ast.parse(textwrap.dedent(src)))


class _Rewriter(ast.NodeTransformer):
    def __init__(self, table: dict):
        self.table = {norm_key(k): v for k, v in table.items()}
        self.used: set = set()

    def _hit(self, node):
        try:
            key = ast.unparse(node)
        except Exception:
            return None
        if key in self.table:
            self.used.add(key)
            return self.table[key]
        return None

    def generic_visit(self, node):
        return super().generic_visit(node)

    def visit(self, node):
        if isinstance(node, ast.stmt):
            rep = self._hit(node)
            if rep is not None:
                return ast.parse(textwrap.dedent(rep)).body
        elif isinstance(node, ast.expr):
            rep = self._hit(node)
            if rep is not None:
                new = ast.parse(rep, mode="eval").body
                if isinstance(getattr(node, "ctx", None), ast.Store):
                    if not isinstance(new, ast.Name):
                        raise Untranslatable(f"assignment target `{ast.unparse(node)}` must be rewritten to a name")
                    new.ctx = ast.Store()
                return new
        return super().visit(node)


# pickers -------------------------------------------------------------------------------


def _blocks(node):
    for n in ast.walk(node):
        for fld in ("body", "orelse", "finalbody"):
            b = getattr(n, fld, None)
            if isinstance(b, list) and b and isinstance(b[0], ast.stmt):
                yield b


def stmts_from(first: str, count: int = 1):
    """`count` consecutive statements starting at the unique statement whose source starts with `first`"""
    first_n = first.strip()

    def pick(fdef):
        hits = []
        for b in _blocks(fdef):
            for i, s in enumerate(b):
                if ast.unparse(s).startswith(first_n):
                    hits.append((b, i))
        if len(hits) != 1:
            raise Untranslatable(f"{len(hits)} statements start with `{first_n}` in {fdef.name} (need exactly 1)")
        b, i = hits[0]
        if i + count > len(b):
            raise Untranslatable(f"fewer than {count} statements follow `{first_n}` in {fdef.name}")
        return b[i : i + count]

    pick.doc = f"the {count} consecutive statement(s) starting at `{first_n}`"
    return pick


def the(node_type, attr: Optional[str] = None, where: Optional[Callable] = None):
    """the unique node of the given ast type in the function (optionally one of its fields)"""

    def pick(fdef):
        hits = [n for n in ast.walk(fdef) if isinstance(n, node_type) and (where is None or where(n))]
        if len(hits) != 1:
            raise Untranslatable(f"{len(hits)} {node_type.__name__} nodes in {fdef.name} (need exactly 1)")
        return getattr(hits[0], attr) if attr else hits[0]

    pick.doc = f"the unique {node_type.__name__}" + (f".{attr}" if attr else "") + " of the function"
    return pick


# --------------------------------------------------------------------------------------
# translation of one function


@dataclass
class _Done:
    spec: Fn
    fobj: Any
    params: list
    ret: Any  # type
    raising: bool
    body: str
    pysrc: str  # the (rewritten) Python that was translated, as a def
    consts: dict
    tables: dict
    rewrites_used: list
    pyfunc: Any = None  # the rewritten Python compiled (for translation validation)


class _Ctx:
    def __init__(self, tr: "Translator", spec: Fn, glob: dict):
        self.tr, self.spec, self.glob = tr, spec, glob
        self.raising = False
        self.guards: list = []  # [(prop, exception name)] hoisted before the current statement
        self.guard_ok = True
        self.ret_types: list = []
        self.consts: dict = {}
        self.tables: dict = {}
        self.tmp = 0

    def fresh(self, base="t"):
        self.tmp += 1
        return f"{base}_{self.tmp}"

    def guard(self, prop: str, exc: str, what: str):
        if not self.guard_ok:
            raise Untranslatable(
                f"`{what}` can raise {exc} in a position that is evaluated conditionally (short-circuit, "
                "conditional expression, loop body) — not in the subset"
            )
        self.guards.append((prop, exc))


_STATIC_NODES = (ast.Constant, ast.Name, ast.Attribute, ast.BinOp, ast.UnaryOp, ast.Load, ast.operator, ast.unaryop,
                 ast.Tuple)


def _static_value(e, env, glob):
    """value of an expression built only from constants and module-level names, read live; else None"""
    for n in ast.walk(e):
        if not isinstance(n, _STATIC_NODES):
            return None
        if isinstance(n, ast.Name) and (n.id in env or n.id not in glob):
            return None
    if isinstance(e, ast.Constant):
        return None  # plain literals are handled by the caller
    try:
        return eval(compile(ast.Expression(body=e), "<static>", "eval"), dict(glob))  # noqa: S307 (constants only)
    except Exception as ex:
        raise Untranslatable(f"cannot read `{ast.unparse(e)}` from the live module: {type(ex).__name__}: {ex}")


def _is_literal_int(e) -> Optional[int]:
    if isinstance(e, ast.Constant) and isinstance(e.value, int) and not isinstance(e.value, bool):
        return e.value
    if isinstance(e, ast.UnaryOp) and isinstance(e.op, ast.USub):
        v = _is_literal_int(e.operand)
        return None if v is None else -v
    return None


class _FnTranslator:
    def __init__(self, ctx: _Ctx):
        self.c = ctx

    # ---- expressions ------------------------------------------------------------------
    def expr(self, e, env) -> tuple:
        c = self.c
        if isinstance(e, ast.Constant):
            if isinstance(e.value, bool):
                return ("true" if e.value else "false"), BOOL
            if isinstance(e.value, int):
                return lit(e.value), INT
            raise Untranslatable(f"constant {e.value!r} (only int and bool constants are in the subset)")
        sv = _static_value(e, env, c.glob)
        if sv is not None:
            if isinstance(sv, enum.IntEnum):
                sv = int(sv)
            if isinstance(sv, (bool, int)) or (isinstance(sv, tuple) and len(sv) >= 2):
                t = type_of_value(sv)
                if any(isinstance(n, ast.Name) for n in ast.walk(e)):
                    c.consts[ast.unparse(e)] = sv
                return lean_value(sv, t), t
            raise Untranslatable(f"`{ast.unparse(e)}` is a live {type(sv).__name__}, not an int/bool/tuple constant")
        if isinstance(e, ast.Name):
            if e.id in env:
                return mangle(e.id), env[e.id]
            raise Untranslatable(f"unknown name `{e.id}` (not a parameter, a local, or a module-level constant)")
        if isinstance(e, ast.Tuple):
            if len(e.elts) < 2 or any(isinstance(x, ast.Starred) for x in e.elts):
                raise Untranslatable(f"tuple `{ast.unparse(e)}` (need ≥ 2 plain elements)")
            parts = [self.expr(x, env) for x in e.elts]
            return "(" + ", ".join(p[0] for p in parts) + ")", tuple(p[1] for p in parts)
        if isinstance(e, ast.UnaryOp):
            if isinstance(e.op, ast.Not):
                return f"(decide (¬ {self.prop(e.operand, env)}))", BOOL
            s, t = self.expr(e.operand, env)
            if t != INT:
                raise Untranslatable(f"unary {type(e.op).__name__} on a {t}: `{ast.unparse(e)}`")
            if isinstance(e.op, ast.USub):
                return f"(-{s})", INT
            if isinstance(e.op, ast.UAdd):
                return s, INT
            raise Untranslatable(f"operator `{ast.unparse(e)}`")
        if isinstance(e, ast.BinOp):
            return self.binop(e, env)
        if isinstance(e, ast.BoolOp):
            parts = []
            for i, v in enumerate(e.values):
                old = c.guard_ok
                c.guard_ok = old and i == 0
                try:
                    parts.append(self.expr(v, env))
                finally:
                    c.guard_ok = old
            ts = {p[1] for p in parts}
            if ts == {BOOL}:
                op = " && " if isinstance(e.op, ast.And) else " || "
                return "(" + op.join(p[0] for p in parts) + ")", BOOL
            if ts == {INT}:
                acc = parts[-1][0]
                for s, _ in reversed(parts[:-1]):
                    acc = (f"(if {s} ≠ 0 then {acc} else {s})" if isinstance(e.op, ast.And)
                           else f"(if {s} ≠ 0 then {s} else {acc})")
                return acc, INT
            raise Untranslatable(f"`{ast.unparse(e)}` mixes operand types {sorted(map(str, ts))}")
        if isinstance(e, ast.Compare):
            return f"(decide ({self.prop(e, env)}))", BOOL
        if isinstance(e, ast.IfExp):
            p = self.prop(e.test, env)
            old = c.guard_ok
            c.guard_ok = False
            try:
                a, ta = self.expr(e.body, env)
                b, tb = self.expr(e.orelse, env)
            finally:
                c.guard_ok = old
            if ta != tb:
                raise Untranslatable(f"branches of `{ast.unparse(e)}` have types {ta} and {tb}")
            return f"(if {p} then {a} else {b})", ta
        if isinstance(e, ast.Subscript):
            return self.subscript(e, env)
        if isinstance(e, ast.Call):
            s, t, raising = self.call(e, env)
            if raising:
                raise Untranslatable(
                    f"`{ast.unparse(e)}` can raise; such a call is only translated as the whole right-hand side of an "
                    "assignment or of a return")
            return s, t
        raise Untranslatable(f"{type(e).__name__} expression `{ast.unparse(e)}`")

    def binop(self, e, env):
        c = self.c
        a, ta = self.expr(e.left, env)
        b, tb = self.expr(e.right, env)
        if ta != INT or tb != INT:
            raise Untranslatable(f"`{ast.unparse(e)}`: arithmetic on {ta} and {tb} (only int arithmetic is in the subset)")
        op = type(e.op)
        if op in (ast.Add, ast.Sub, ast.Mult):
            return f"({a} {'+' if op is ast.Add else '-' if op is ast.Sub else '*'} {b})", INT
        if op in (ast.FloorDiv, ast.Mod):
            d = _is_literal_int(e.right)
            if d == 0:
                raise Untranslatable(f"`{ast.unparse(e)}` divides by the literal 0")
            if d is None:
                c.guard(f"{b} = 0", "ZeroDivisionError", ast.unparse(e))
            return f"(Int.{'fdiv' if op is ast.FloorDiv else 'fmod'} {a} {b})", INT
        if op is ast.LShift:
            n = _is_literal_int(e.right)
            if n is None:
                c.guard(f"{b} < 0", "ValueError", ast.unparse(e))
            elif n < 0:
                raise Untranslatable(f"`{ast.unparse(e)}`: negative shift count")
            return f"({a} * (2 : Int) ^ ({b}).toNat)", INT
        if op is ast.RShift:  # floor division by 2 ** n, also for a negative left operand
            n = _is_literal_int(e.right)
            if n is None:
                c.guard(f"{b} < 0", "ValueError", ast.unparse(e))
                return f"(Int.fdiv {a} ((2 : Int) ^ ({b}).toNat))", INT
            if n < 0:
                raise Untranslatable(f"`{ast.unparse(e)}`: negative shift count")
            return f"(Int.fdiv {a} {lit(2 ** n)})", INT
        raise Untranslatable(f"operator {op.__name__} in `{ast.unparse(e)}`")

    def subscript(self, e, env):
        c = self.c
        if isinstance(e.slice, ast.Slice):
            raise Untranslatable(f"slice `{ast.unparse(e)}`")
        k = _is_literal_int(e.slice)
        # TABLE[i] with TABLE a module-level tuple
        tv = _static_value(e.value, env, c.glob) if not isinstance(e.value, ast.Constant) else None
        if tv is not None and k is None:
            if not (isinstance(tv, tuple) and tv):
                raise Untranslatable(f"`{ast.unparse(e.value)}` is not a non-empty tuple")
            ts = {type_of_value(x) for x in tv}
            if len(ts) != 1:
                raise Untranslatable(f"`{ast.unparse(e.value)}` has elements of different shapes")
            et = ts.pop()
            i, ti = self.expr(e.slice, env)
            if ti != INT:
                raise Untranslatable(f"index of `{ast.unparse(e)}` is a {ti}")
            name = mangle(ast.unparse(e.value).replace(".", "_"))
            c.tables[name] = (tv, et)
            c.consts[ast.unparse(e.value)] = tv
            n = len(tv)
            c.guard(f"{i} < {lit(-n)} ∨ {lit(n)} ≤ {i}", "IndexError", ast.unparse(e))
            return f"({name}_at {i})", et
        s, t = self.expr(e.value, env)
        if not isinstance(t, tuple):
            raise Untranslatable(f"`{ast.unparse(e)}`: subscript of a {t}")
        if k is None:
            raise Untranslatable(f"`{ast.unparse(e)}`: a tuple is indexed by a non-literal")
        return proj(s, k, len(t)), t[k if k >= 0 else k + len(t)]

    def call(self, e, env):
        """-> (lean, type, raising)"""
        c = self.c
        fsrc = ast.unparse(e.func)
        args = list(e.args)
        # a function translated earlier (by lean name or by identity of the live object)
        target = None
        if isinstance(e.func, ast.Name) and e.func.id not in env:
            for d in c.tr.done:
                if d.spec.lean == e.func.id:
                    target = d
            if target is None and e.func.id in c.glob:
                obj = unwrap(c.glob[e.func.id])
                for d in c.tr.done:
                    if d.fobj is obj and d.spec.pick is None:
                        target = d
        if target is not None:
            if any(isinstance(a, ast.Starred) for a in args):
                raise Untranslatable(f"starred argument in `{ast.unparse(e)}`")
            names = [p[0] for p in target.params]
            given = {}
            if len(args) > len(names):
                raise Untranslatable(f"too many arguments in `{ast.unparse(e)}`")
            for n, a in zip(names, args):
                given[n] = a
            for kw in e.keywords:
                if kw.arg is None or kw.arg not in names or kw.arg in given:
                    raise Untranslatable(f"keyword `{kw.arg}` in `{ast.unparse(e)}`")
                given[kw.arg] = kw.value
            if set(given) != set(names):
                raise Untranslatable(f"`{ast.unparse(e)}` does not give {sorted(set(names) - set(given))}")
            out = []
            for n, t in target.params:
                s, ts = self.expr(given[n], env)
                if ts != t:
                    raise Untranslatable(f"argument `{n}` of `{ast.unparse(e)}` is a {ts}, expected {t}")
                out.append(s)
            return f"({target.spec.lean} {' '.join(out)})", target.ret, target.raising
        if e.keywords:
            raise Untranslatable(f"keyword arguments in `{ast.unparse(e)}`")
        if isinstance(e.func, ast.Name) and e.func.id not in env:
            name = e.func.id
            obj = c.glob.get(name, getattr(builtins, name, None))
            if name in c.spec.tuple_ctors:
                probe = tuple(range(3, 3 + len(args)))
                try:
                    ok = isinstance(obj(*probe), tuple) and tuple(obj(*probe)) == probe
                except Exception:
                    ok = False
                if not ok:
                    raise Untranslatable(f"`{name}` does not build a plain tuple of its arguments any more")
                return self.expr(ast.Tuple(elts=args, ctx=ast.Load()), env) + (False,)
            if obj in (builtins.max, builtins.min):
                if len(args) < 2 or any(isinstance(a, ast.Starred) for a in args):
                    raise Untranslatable(f"`{ast.unparse(e)}` (max/min need ≥ 2 plain arguments)")
                parts = [self.expr(a, env) for a in args]
                if {p[1] for p in parts} != {INT}:
                    raise Untranslatable(f"`{ast.unparse(e)}`: max/min of non-ints")
                acc = parts[0][0]
                for s, _ in parts[1:]:
                    acc = f"({'max' if obj is builtins.max else 'min'} {acc} {s})"
                return acc, INT, False
            if obj in (builtins.int, math.ceil, math.floor, builtins.round) and len(args) == 1:
                s, t = self.expr(args[0], env)
                if t == INT:
                    return s, INT, False  # int(i) == ceil(i) == floor(i) == round(i) == i for an int i
                if t == BOOL and obj is builtins.int:
                    return f"(if {s} then (1 : Int) else (0 : Int))", INT, False
                raise Untranslatable(f"`{ast.unparse(e)}`: argument is a {t}")
            if obj is builtins.abs and len(args) == 1:
                s, t = self.expr(args[0], env)
                if t == INT:
                    return f"(if {s} < 0 then -{s} else {s})", INT, False
            if obj in (operator.mul, operator.add):
                if len(args) == 1 and isinstance(args[0], ast.Starred):
                    s, t = self.expr(args[0].value, env)
                    if t != (INT, INT):
                        raise Untranslatable(f"`{ast.unparse(e)}`: starred argument is a {t}")
                    parts = [(proj(s, 0, 2), INT), (proj(s, 1, 2), INT)]
                elif len(args) == 2:
                    parts = [self.expr(a, env) for a in args]
                else:
                    raise Untranslatable(f"`{ast.unparse(e)}`")
                if {p[1] for p in parts} != {INT}:
                    raise Untranslatable(f"`{ast.unparse(e)}`: non-int operands")
                return f"({parts[0][0]} {'*' if obj is operator.mul else '+'} {parts[1][0]})", INT, False
        raise Untranslatable(f"call `{ast.unparse(e)}` (callee `{fsrc}` is neither translated nor a supported builtin; "
                             "declare a rewrite if it is object plumbing)")

    # ---- tests ------------------------------------------------------------------------
    def prop(self, e, env) -> str:
        c = self.c
        if isinstance(e, ast.Constant) and isinstance(e.value, bool):
            return "True" if e.value else "False"
        if isinstance(e, ast.UnaryOp) and isinstance(e.op, ast.Not):
            return f"¬ ({self.prop(e.operand, env)})"
        if isinstance(e, ast.BoolOp):
            parts = []
            for i, v in enumerate(e.values):
                old = c.guard_ok
                c.guard_ok = old and i == 0
                try:
                    parts.append(self.prop(v, env))
                finally:
                    c.guard_ok = old
            op = " ∧ " if isinstance(e.op, ast.And) else " ∨ "
            return "(" + op.join(f"({p})" if (" ∧ " in p or " ∨ " in p) and not p.startswith("(") else p
                                   for p in parts) + ")"
        if isinstance(e, ast.Compare):
            links = []
            left = e.left
            for i, (op, right) in enumerate(zip(e.ops, e.comparators)):
                old = c.guard_ok
                c.guard_ok = old and i == 0
                try:
                    links.append(self.link(left, op, right, env))
                finally:
                    c.guard_ok = old
                left = right
            return links[0] if len(links) == 1 else "(" + " ∧ ".join(links) + ")"
        s, t = self.expr(e, env)
        if t == BOOL:
            return f"{s} = true"
        if t == INT:
            return f"{s} ≠ 0"
        raise Untranslatable(f"truth value of a tuple: `{ast.unparse(e)}`")

    def link(self, left, op, right, env) -> str:
        c = self.c
        if isinstance(op, (ast.In, ast.NotIn)):
            if not isinstance(right, ast.Tuple) or not right.elts:
                raise Untranslatable(f"`in` with a right operand that is not a tuple display: `{ast.unparse(right)}`")
            a, ta = self.expr(left, env)
            alts = []
            for x in right.elts:
                b, tb = self.expr(x, env)
                if tb != ta:
                    raise Untranslatable(f"`{ast.unparse(left)} in {ast.unparse(right)}`: {ta} vs {tb}")
                alts.append(f"{a} = {b}")
            p = "(" + " ∨ ".join(alts) + ")"
            return p if isinstance(op, ast.In) else f"¬ {p}"
        if isinstance(op, (ast.Is, ast.IsNot)):
            rv = _static_value(right, env, c.glob) if not isinstance(right, ast.Constant) else None
            if not isinstance(rv, enum.IntEnum):
                raise Untranslatable(f"`is` against `{ast.unparse(right)}` (only live IntEnum members; use a rewrite)")
            a, ta = self.expr(left, env)
            if ta != INT:
                raise Untranslatable(f"`{ast.unparse(left)} is …`: left operand is a {ta}")
            c.consts[ast.unparse(right)] = int(rv)
            return f"{a} {'=' if isinstance(op, ast.Is) else '≠'} {lit(int(rv))}"
        a, ta = self.expr(left, env)
        b, tb = self.expr(right, env)
        if ta != tb:
            raise Untranslatable(f"comparison of a {ta} with a {tb}: `{ast.unparse(left)}` vs `{ast.unparse(right)}`")
        if isinstance(op, (ast.Eq, ast.NotEq)):
            return f"{a} {'=' if isinstance(op, ast.Eq) else '≠'} {b}"
        if ta != INT:
            raise Untranslatable(f"ordering comparison of {ta}s")
        sym = {ast.Lt: "<", ast.LtE: "≤", ast.Gt: ">", ast.GtE: "≥"}.get(type(op))
        if sym is None:
            raise Untranslatable(f"comparison operator {type(op).__name__}")
        return f"{a} {sym} {b}"

    # ---- statements -------------------------------------------------------------------
    def ret(self, s: str) -> str:
        return f"Except.ok {s}" if self.c.raising else s

    def with_guards(self, guards, body: str, ind: str) -> str:
        out = ""
        for p, exc in guards:
            out += f"{ind}if {p} then Except.error \"{exc}\" else\n"
        return out + body

    def take_guards(self):
        g, self.c.guards = self.c.guards, []
        if g and not self.c.raising:
            raise AssertionError("guard in a function not marked raising")
        return g

    def seq(self, stmts, env, ind, tail) -> str:
        c = self.c
        if not stmts:
            return tail(env, ind)
        s, rest = stmts[0], stmts[1:]
        if isinstance(s, ast.Pass) or (isinstance(s, ast.Expr) and isinstance(s.value, ast.Constant)
                                       and isinstance(s.value.value, str)):
            return self.seq(rest, env, ind, tail)
        # `return a if t else b` / `x = a if t else b`  ==  the if-statement (so that a guarded operation in one arm is
        # only evaluated when that arm is)
        if isinstance(s, ast.Return) and isinstance(s.value, ast.IfExp) and _may_raise([s], c.tr, c.glob):
            s = ast.If(test=s.value.test, body=[ast.Return(value=s.value.body)], orelse=[ast.Return(value=s.value.orelse)])
        if isinstance(s, ast.Assign) and isinstance(s.value, ast.IfExp) and _may_raise([s], c.tr, c.glob):
            s = ast.If(test=s.value.test, body=[ast.Assign(targets=s.targets, value=s.value.body)],
                       orelse=[ast.Assign(targets=s.targets, value=s.value.orelse)])
        if isinstance(s, ast.Return):
            if s.value is None:
                raise Untranslatable("bare `return`")
            if isinstance(s.value, ast.Call):
                v, t, raising = self.call(s.value, env)
                g = self.take_guards()
                c.ret_types.append(t)
                return self.with_guards(g, f"{ind}{v if raising else self.ret(v)}\n", ind)
            v, t = self.expr(s.value, env)
            g = self.take_guards()
            c.ret_types.append(t)
            return self.with_guards(g, f"{ind}{self.ret(v)}\n", ind)
        if isinstance(s, ast.Raise):
            return f"{ind}Except.error \"{self.exc_name(s)}\"\n"
        if isinstance(s, (ast.Assign, ast.AugAssign, ast.AnnAssign)):
            return self.assign(s, rest, env, ind, tail)
        if isinstance(s, ast.If):
            return self.if_(s, rest, env, ind, tail)
        if isinstance(s, ast.For):
            return self.for_(s, rest, env, ind, tail)
        raise Untranslatable(f"{type(s).__name__} statement `{ast.unparse(s).splitlines()[0]}`")

    def exc_name(self, s) -> str:
        c = self.c
        if s.exc is None:
            raise Untranslatable("bare `raise`")
        f = s.exc.func if isinstance(s.exc, ast.Call) else s.exc
        src = ast.unparse(f)
        if src in c.spec.exc:
            return c.spec.exc[src]
        if isinstance(f, ast.Name):
            obj = c.glob.get(f.id, getattr(builtins, f.id, None))
            if isinstance(obj, type) and issubclass(obj, BaseException):
                return obj.__name__
        raise Untranslatable(f"`{ast.unparse(s)}`: `{src}` is not a live exception class (declare it in `exc=`)")

    def bind_targets(self, targets, v, t, env, ind):
        """lets for `targets = v` where v is a Lean term of type t; returns (text, env)"""
        c = self.c
        out = ""
        env = dict(env)
        for tg in targets:
            if isinstance(tg, ast.Name):
                if mangle(tg.id) != v:
                    out += f"{ind}let {mangle(tg.id)} : {lean_type(t)} := {v}\n"
                env[tg.id] = t
            elif isinstance(tg, (ast.Tuple, ast.List)):
                if not isinstance(t, tuple) or len(t) != len(tg.elts):
                    raise Untranslatable(f"unpacking `{ast.unparse(tg)}` from a {t}")
                if any(not isinstance(x, ast.Name) for x in tg.elts):
                    raise Untranslatable(f"unpacking target `{ast.unparse(tg)}` (only plain names)")
                src = v
                if not src.replace("_", "a").replace("'", "a").isalnum():
                    src = c.fresh()
                    out += f"{ind}let {src} : {lean_type(t)} := {v}\n"
                for k, x in enumerate(tg.elts):
                    out += f"{ind}let {mangle(x.id)} : {lean_type(t[k])} := {proj(src, k, len(t))}\n"
                    env[x.id] = t[k]
            else:
                raise Untranslatable(f"assignment target `{ast.unparse(tg)}` (declare a rewrite to a local name)")
        return out, env

    def assign(self, s, rest, env, ind, tail):
        c = self.c
        if isinstance(s, ast.AugAssign):
            if not isinstance(s.target, ast.Name):
                raise Untranslatable(f"augmented assignment to `{ast.unparse(s.target)}`")
            value = ast.BinOp(left=ast.Name(id=s.target.id, ctx=ast.Load()), op=s.op, right=s.value)
            targets = [s.target]
        elif isinstance(s, ast.AnnAssign):
            if s.value is None:
                return self.seq(rest, env, ind, tail)
            value, targets = s.value, [s.target]
        else:
            value, targets = s.value, s.targets
        # parallel assignment from a tuple display: a, b = e1, e2
        if (len(targets) == 1 and isinstance(targets[0], (ast.Tuple, ast.List)) and isinstance(value, ast.Tuple)
                and len(value.elts) == len(targets[0].elts)
                and all(isinstance(x, ast.Name) for x in targets[0].elts)
                and not any(isinstance(x, ast.Starred) for x in value.elts)):
            parts = [self.expr(x, env) for x in value.elts]
            g = self.take_guards()
            names = [x.id for x in targets[0].elts]
            used_later = [set(n.id for n in ast.walk(x) if isinstance(n, ast.Name)) for x in value.elts]
            conflict = any(names[i] in used_later[j] for i in range(len(names)) for j in range(i + 1, len(names)))
            out = ""
            env2 = dict(env)
            if conflict:
                tmps = [c.fresh() for _ in names]
                for tmp, (v, t) in zip(tmps, parts):
                    out += f"{ind}let {tmp} : {lean_type(t)} := {v}\n"
                parts = [(tmp, t) for tmp, (_, t) in zip(tmps, parts)]
            for n, (v, t) in zip(names, parts):
                if mangle(n) != v:
                    out += f"{ind}let {mangle(n)} : {lean_type(t)} := {v}\n"
                env2[n] = t
            return self.with_guards(g, out + self.seq(rest, env2, ind, tail), ind)
        if isinstance(value, ast.Call):
            v, t, raising = self.call(value, env)
            g = self.take_guards()
            if raising:
                r = c.fresh("r")
                lets, env2 = self.bind_targets(targets, r, t, env, ind + "  ")
                body = (f"{ind}match {v} with\n{ind}| Except.error e => Except.error e\n{ind}| Except.ok {r} =>\n"
                        + lets + self.seq(rest, env2, ind + "  ", tail))
                return self.with_guards(g, body, ind)
        else:
            v, t = self.expr(value, env)
            g = self.take_guards()
        lets, env2 = self.bind_targets(targets, v, t, env, ind)
        if len(targets) > 1 and len(v) > 12:
            # a = b = e : evaluate e once
            tmp = c.fresh()
            lets2, env2 = self.bind_targets(targets, tmp, t, env, ind)
            lets = f"{ind}let {tmp} : {lean_type(t)} := {v}\n" + lets2
        return self.with_guards(g, lets + self.seq(rest, env2, ind, tail), ind)

    @staticmethod
    def assigned(stmts) -> list:
        out = []

        def add(t):
            if isinstance(t, ast.Name):
                if t.id not in out:
                    out.append(t.id)
            elif isinstance(t, (ast.Tuple, ast.List)):
                for x in t.elts:
                    add(x)

        for s in stmts:
            for n in ast.walk(s):
                if isinstance(n, ast.Assign):
                    for t in n.targets:
                        add(t)
                elif isinstance(n, (ast.AugAssign, ast.AnnAssign)):
                    add(n.target)
                elif isinstance(n, ast.For):
                    add(n.target)
        return out

    @staticmethod
    def has_exit(stmts) -> bool:
        return any(isinstance(n, (ast.Return, ast.Raise)) for s in stmts for n in ast.walk(s))

    def if_(self, s, rest, env, ind, tail):
        c = self.c
        p = self.prop(s.test, env)
        g = self.take_guards()
        if self.has_exit([s]) or not rest or _may_raise([s], c.tr, c.glob):
            # some branch leaves the function or can raise (or nothing follows): the continuation goes into every branch
            def k(env2, ind2):
                return self.seq(rest, env2, ind2, tail)

            a = self.seq(s.body, env, ind + "  ", k)
            b = self.seq(s.orelse, env, ind + "  ", k)
            return self.with_guards(g, f"{ind}if {p} then\n{a}{ind}else\n{b}", ind)
        # no branch leaves: merge the variables the branches assign
        in_body, in_else = self.assigned(s.body), self.assigned(s.orelse)
        names = [n for n in dict.fromkeys(in_body + in_else)
                 if (n in in_body and n in in_else) or n in env]
        if not names:
            return self.with_guards(g, self.seq(rest, env, ind, tail), ind)
        seen_types: list = []

        def tup(env2, ind2):
            ts = tuple(env2[n] for n in names)
            seen_types.append(ts)
            val = mangle(names[0]) if len(names) == 1 else "(" + ", ".join(mangle(n) for n in names) + ")"
            return f"{ind2}{val}\n"

        old_raising_wrap = c.raising
        # inside the merged value nothing may raise (a guard or `raise` would have made has_exit true / fails below)
        old_ok = c.guard_ok
        c.guard_ok = False
        try:
            a = self.seq(s.body, env, ind + "    ", tup)
            b = self.seq(s.orelse, env, ind + "    ", tup)
        finally:
            c.guard_ok = old_ok
            c.raising = old_raising_wrap
        if len(set(seen_types)) != 1:
            raise Untranslatable(f"branches of `if {ast.unparse(s.test)}` give {names} different types: {set(seen_types)}")
        ts = seen_types[0]
        env2 = dict(env)
        if len(names) == 1:
            out = f"{ind}let {mangle(names[0])} : {lean_type(ts[0])} :=\n{ind}  if {p} then\n{a}{ind}  else\n{b}"
            env2[names[0]] = ts[0]
        else:
            tmp = c.fresh("m")
            out = f"{ind}let {tmp} : {lean_type(ts)} :=\n{ind}  if {p} then\n{a}{ind}  else\n{b}"
            for k_, n in enumerate(names):
                out += f"{ind}let {mangle(n)} : {lean_type(ts[k_])} := {proj(tmp, k_, len(names))}\n"
                env2[n] = ts[k_]
        return self.with_guards(g, out + self.seq(rest, env2, ind, tail), ind)

    def for_(self, s, rest, env, ind, tail):
        c = self.c
        if s.orelse:
            raise Untranslatable("for … else")
        if not (isinstance(s.iter, ast.Call) and isinstance(s.iter.func, ast.Name) and s.iter.func.id == "range"
                and s.iter.func.id not in env and c.glob.get("range", builtins.range) is builtins.range
                and 1 <= len(s.iter.args) <= 2 and not s.iter.keywords):
            raise Untranslatable(f"loop over `{ast.unparse(s.iter)}` (only `range(n)` / `range(a, b)`)")
        if not isinstance(s.target, ast.Name):
            raise Untranslatable(f"loop target `{ast.unparse(s.target)}`")
        if self.has_exit(s.body) or any(isinstance(n, (ast.Break, ast.Continue)) for x in s.body for n in ast.walk(x)):
            raise Untranslatable("return / raise / break / continue inside a loop")
        bounds = [self.expr(a, env) for a in s.iter.args]
        if {b[1] for b in bounds} != {INT}:
            raise Untranslatable(f"`{ast.unparse(s.iter)}`: non-int bounds")
        g = self.take_guards()
        lo, hi = (lit(0), bounds[0][0]) if len(bounds) == 1 else (bounds[0][0], bounds[1][0])
        names = [n for n in self.assigned(s.body) if n in env and n != s.target.id]
        if not names:
            raise Untranslatable("loop that carries no variable defined before it")
        ts = tuple(env[n] for n in names)
        st = c.fresh("st")
        i = mangle(s.target.id)
        env_in = dict(env)
        env_in[s.target.id] = INT
        one = len(names) == 1
        sty = lean_type(ts[0]) if one else lean_type(ts)
        pre = ""
        if not one:
            for k_, n in enumerate(names):
                pre += f"{ind}    let {mangle(n)} : {lean_type(ts[k_])} := {proj(st, k_, len(names))}\n"
        else:
            pre = f"{ind}    let {mangle(names[0])} : {sty} := {st}\n"

        def tup(env2, ind2):
            if tuple(env2[n] for n in names) != ts:
                raise Untranslatable(f"loop changes the type of one of {names}")
            return f"{ind2}{mangle(names[0]) if one else '(' + ', '.join(mangle(n) for n in names) + ')'}\n"

        old_ok = c.guard_ok
        c.guard_ok = False
        try:
            body = self.seq(s.body, env_in, ind + "    ", tup)
        finally:
            c.guard_ok = old_ok
        init = mangle(names[0]) if one else "(" + ", ".join(mangle(n) for n in names) + ")"
        res = c.fresh("m")
        out = (f"{ind}let {res} : {sty} :=\n{ind}  TIV.Py.rangeFold {lo} {hi} (fun ({i} : Int) ({st} : {sty}) =>\n"
               f"{pre}{body}{ind}  ) {init}\n")
        env2 = dict(env)
        if one:
            out += f"{ind}let {mangle(names[0])} : {sty} := {res}\n"
        else:
            for k_, n in enumerate(names):
                out += f"{ind}let {mangle(n)} : {lean_type(ts[k_])} := {proj(res, k_, len(names))}\n"
        # the loop variable stays bound after the loop only if the range was non-empty: not exported
        return self.with_guards(g, out + self.seq(rest, env2, ind, tail), ind)


# --------------------------------------------------------------------------------------


def _may_raise(stmts, tr, glob) -> bool:
    """pre-scan: does the fragment contain a raise, a guarded operation, or a call of a raising translated fn"""
    for s in stmts:
        for n in ast.walk(s):
            if isinstance(n, ast.Raise):
                return True
            if isinstance(n, ast.BinOp) and isinstance(n.op, (ast.FloorDiv, ast.Mod)) and _is_literal_int(n.right) is None:
                return True
            if isinstance(n, ast.BinOp) and isinstance(n.op, (ast.LShift, ast.RShift)) and _is_literal_int(n.right) is None:
                return True
            if isinstance(n, ast.Subscript) and not isinstance(n.slice, ast.Slice) and _is_literal_int(n.slice) is None:
                return True
            if isinstance(n, ast.Call) and isinstance(n.func, ast.Name):
                for d in tr.done:
                    if d.raising and (d.spec.lean == n.func.id or (
                            n.func.id in glob and unwrap(glob[n.func.id]) is d.fobj and d.spec.pick is None)):
                        return True
    return False


class Translator:
    def __init__(self, namespace: str, origin: str):
        self.namespace, self.origin = namespace, origin
        self.done: list = []

    def add(self, spec: Fn) -> "Translator":
        fobj = unwrap(spec.py)
        try:
            src = textwrap.dedent(inspect.getsource(fobj))
        except (OSError, TypeError) as e:
            raise Untranslatable(f"{spec.lean}: no source for {spec.py!r}: {e}")
        tree = ast.parse(src)
        fdef = tree.body[0]
        if not isinstance(fdef, (ast.FunctionDef,)):
            raise Untranslatable(f"{spec.lean}: {spec.py!r} is not a plain function")
        glob = dict(getattr(fobj, "__globals__", {}))
        if fobj.__closure__:
            for n, cell in zip(fobj.__code__.co_freevars, fobj.__closure__):
                try:
                    glob.setdefault(n, cell.cell_contents)
                except ValueError:
                    pass
        picked = spec.pick(fdef) if spec.pick else list(fdef.body)
        if isinstance(picked, ast.Lambda):
            a = picked.args
            if a.vararg or a.kwarg or a.kwonlyargs or a.defaults:
                raise Untranslatable(f"{spec.lean}: lambda with non-plain parameters")
            lam_params = [x.arg for x in a.args]
            if lam_params != [p[0] for p in spec.params[: len(lam_params)]]:
                raise Untranslatable(f"{spec.lean}: the lambda's parameters are {lam_params}, "
                                     f"the spec starts with {[p[0] for p in spec.params[:len(lam_params)]]}")
            stmts = [ast.Return(value=picked.body)]
        elif isinstance(picked, ast.expr):
            stmts = [ast.Return(value=picked)]
        else:
            stmts = list(picked)
        if spec.pick is None and (fdef.args.vararg or fdef.args.kwarg):
            raise Untranslatable(f"{spec.lean}: *args / **kwargs")
        if spec.outputs:
            stmts.append(ast.Return(value=ast.Tuple(elts=[ast.Name(id=n, ctx=ast.Load()) for n in spec.outputs],
                                                    ctx=ast.Load())
                                    if len(spec.outputs) > 1 else ast.Name(id=spec.outputs[0], ctx=ast.Load())))
        rw = _Rewriter(spec.rewrite)
        mod = ast.Module(body=stmts, type_ignores=[])
        mod = rw.visit(mod)
        ast.fix_missing_locations(mod)
        missing = sorted(set(rw.table) - rw.used)
        if missing:
            raise Untranslatable(f"{spec.lean}: rewrite source(s) not found in {fobj.__qualname__}: {missing} "
                                 "(the source no longer has the shape the translation was declared for)")
        stmts = [x for x in mod.body if not (isinstance(x, ast.Expr) and isinstance(x.value, ast.Constant)
                                             and isinstance(x.value.value, str))]  # docstring
        ctx = _Ctx(self, spec, glob)
        ctx.raising = _may_raise(stmts, self, glob)
        ft = _FnTranslator(ctx)
        env = {n: t for n, t in spec.params}
        if len(env) != len(spec.params):
            raise Untranslatable(f"{spec.lean}: duplicate parameter")

        def fell_off(_env, _ind):
            raise Untranslatable(f"{spec.lean}: control reaches the end without a return (result None)")

        try:
            body = ft.seq(stmts, env, "  ", fell_off)
        except Untranslatable as e:
            raise Untranslatable(f"{spec.lean} <- {fobj.__module__}.{fobj.__qualname__}: {e}") from None
        rts = set(ctx.ret_types)
        if len(rts) != 1:
            raise Untranslatable(f"{spec.lean}: return types {rts}")
        # the Python that was translated, as a function of the declared parameters (for the header and for validation)
        pydef = ast.FunctionDef(
            name=spec.lean,
            args=ast.arguments(posonlyargs=[], args=[ast.arg(arg=n) for n, _ in spec.params], kwonlyargs=[],
                               kw_defaults=[], defaults=[]),
            body=stmts, decorator_list=[], type_params=[])
        pm = ast.Module(body=[pydef], type_ignores=[])
        ast.fix_missing_locations(pm)
        pysrc = ast.unparse(pm)
        ns = dict(glob)
        for d in self.done:
            ns[d.spec.lean] = d.pyfunc
        exec(compile(pm, f"<py2lean:{spec.lean}>", "exec"), ns)  # noqa: S102 — the library's own code, rewritten
        done = _Done(spec, fobj, list(spec.params), rts.pop(), ctx.raising, body, pysrc, ctx.consts, ctx.tables,
                     sorted(rw.used), ns[spec.lean])
        self.done.append(done)
        return self

    # ---- translation validation samples ---------------------------------------------------
    @staticmethod
    def _sample_value(rng, t):
        if t == INT:
            return rng.choice([-7, -3, -2, -1, 0, 0, 1, 1, 2, 3, 4, 5, 8, 13, 21, 100])
        if t == BOOL:
            return rng.random() < 0.5
        return tuple(Translator._sample_value(rng, x) for x in t)

    def _samples(self, d: _Done) -> list:
        rng = random.Random(sum(map(ord, d.spec.lean)))
        out = []
        for _ in range(d.spec.samples):
            if d.spec.domain:
                kw = d.spec.domain(rng)
            else:
                kw = {n: self._sample_value(rng, t) for n, t in d.params}
            args = [kw[n] for n, _ in d.params]
            try:
                r = d.pyfunc(*args)
                if isinstance(r, enum.IntEnum):
                    r = int(r)
                if isinstance(r, tuple):
                    r = tuple(r)
                want = lean_value(r, d.ret)
                if d.raising:
                    want = f"Except.ok {want}"
            except Exception as e:  # the translated fragment raised: must be the modelled exception
                if not d.raising:
                    raise Untranslatable(f"{d.spec.lean}: Python raised {type(e).__name__} on {args} but the "
                                         "translation has no raising path")
                name = type(e).__name__
                want = f'Except.error "{name}"'
            call = f"{d.spec.lean} " + " ".join(lean_value(a, t) for a, (_, t) in zip(args, d.params))
            out.append(f"example : {call} = {want} := by decide")
        return out

    # ---- output -------------------------------------------------------------------------
    def render(self) -> str:
        o = ["import TIV.Common.Py",
             f"/-! GENERATED by {self.origin} (harness/common/py2lean.py) from the source of the imported package — do not edit.",
             "",
             "Each definition below is the translation of the Python shown above it (read with `inspect.getsource` from the",
             "live function object, narrowed/rewritten exactly as listed).  Semantics: int -> Int, `//` -> Int.fdiv,",
             "`%` -> Int.fmod, comparisons/and/or/not -> Prop in tests and `decide` of it in values, an operation that can",
             "raise is guarded and the function returns `Except String _` with the exception class name.",
             "The `example`s are translation-validation samples: the expected values were computed by *executing the",
             "rewritten Python* in the harness; the Lean kernel checks the generated definition gives the same.",
             "-/",
             f"namespace {self.namespace}",
             ""]
        emitted_tables = set()
        for d in self.done:
            for name, (tv, et) in d.tables.items():
                if name in emitted_tables:
                    continue
                emitted_tables.add(name)
                n = len(tv)
                o.append(f"/-- `{name}[i]` for `-{n} ≤ i < {n}` (the live value is `{tv!r}`) -/")
                o.append(f"def {name}_at (i : Int) : {lean_type(et)} :=")
                for k, v in enumerate(tv[:-1]):
                    o.append(f"  {'if' if k == 0 else 'else if'} i = {lit(k)} ∨ i = {lit(k - n)} then {lean_value(v, et)}")
                o.append(f"  {'else ' if n > 1 else ''}{lean_value(tv[-1], et)}")
                o.append("")
            f = d.fobj
            file = inspect.getsourcefile(f) or "?"
            if "/src/" in file:
                file = "src/" + file.split("/src/", 1)[1]
            o.append("/-")
            o.append(f"`{f.__module__}.{f.__qualname__}`  ({file})")
            if d.spec.pick is not None:
                o.append(f"fragment: {d.spec.pick_doc or getattr(d.spec.pick, 'doc', 'custom selection')}"
                         + (f"; results: {', '.join(d.spec.outputs)}" if d.spec.outputs else ""))
            else:
                o.append("fragment: the whole function body")
            o.append("parameters: " + ", ".join(f"{n} : {lean_type(t)}" for n, t in d.params))
            if d.spec.rewrite:
                o.append("rewritten (source -> what was translated; names on the right that are not locals are parameters):")
                for k, v in d.spec.rewrite.items():
                    o.append(f"    {norm_key(k)!s}   ->   {v}")
            if d.consts:
                o.append("read live: " + "; ".join(f"{k} = {v!r}" for k, v in sorted(d.consts.items())))
            if d.spec.note:
                o.append("note: " + d.spec.note)
            o.append("translated Python:")
            for line in d.pysrc.splitlines():
                o.append("    " + line.replace("-/", "- /").replace("/-", "/ -"))
            o.append("-/")
            rt = lean_type(d.ret)
            if d.raising:
                rt = f"Except String ({rt})" if " " in rt else f"Except String {rt}"
            ps = " ".join(f"({mangle(n)} : {lean_type(t)})" for n, t in d.params)
            o.append(f"def {d.spec.lean} {ps} : {rt} :=")
            o.append(d.body.rstrip("\n"))
            o.append("")
            if d.spec.samples:
                o += self._samples(d)
                o.append("")
        o.append(f"end {self.namespace}")
        return "\n".join(o) + "\n"
