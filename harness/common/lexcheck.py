"""The Lean lexer (`TIV.Lex.lex`, lean/TIV/Common/Lex.lean) on real output, from Python.

`TIV.Lex.lex_toksStr` (lean/TIV/Common/LexProofs.lean) proves that the lexer reads back exactly the
tokens a render model printed (`lex (toksStr ts).toList = some ts` for well-formed `ts`), so an
oracle that sends the *bytes* to the Lean side (`term.runbytes`, or `lex.run` followed by
`term.run`) no longer trusts `harness/common/tokenizer.py` for the reading of the bytes.

Every per-property driver that routes unknown ops to `TIV.TermDrive.handler` serves the two ops:

    lex.run <hex of utf-8 bytes>                          -> ok <n tok…>   (format of tokenizer.wire) | err lex
    term.runbytes W H kind row col top lm <hex>           -> same answer as term.run                  | err lex
    term.runbytes.n <hex> <n> (W H kind row col top lm)×n -> ok <n tok…> | <state> | … (one reading, n terminals) | err lex
"""
from __future__ import annotations

from . import framework as fw
from . import tokenizer as tk


def hx(s: str) -> str:
    b = s.encode()
    return b.hex() if b else "-"


def lex_request(out: str) -> str:
    return "lex.run " + hx(out)


def runbytes_request(W: int, H: int, kind: str, row: int, col: int, top: int, lm: int, out: str) -> str:
    """the `term.run` of the oracle recipe, with the bytes instead of Python-made wire tokens"""
    return f"term.runbytes {W} {H} {kind} {row} {col} {top} {lm} {hx(out)}"


def runbytes_n_request(out: str, terms: list[tuple]) -> str:
    """one reading of the bytes, run on several terminals `(W, H, kind, row, col, top, lm)`"""
    return f"term.runbytes.n {hx(out)} {len(terms)} " + " ".join(" ".join(map(str, t)) for t in terms)


def parse_runbytes_n(resp: str):
    """-> None when the lexer rejected the bytes, else (wire tokens, ["ok <state>", …] in `term.run`'s format)"""
    if resp == "err lex":
        return None
    if not resp.startswith("ok "):
        raise fw.LeanError(f"unexpected driver answer: {resp[:200]}")
    parts = resp[3:].split(" | ")
    return parts[0].split(" ")[1:], ["ok " + p for p in parts[1:]]


def run_batched(driver: str, reqs: list[str], limit: int = 24_000_000) -> list[str]:
    """`fw.run_driver` in batches of bounded total size (render outputs can be megabytes)"""
    res, cur, size = [], [], 0
    for r in reqs:
        if cur and size + len(r) > limit:
            res += fw.run_driver(driver, cur)
            cur, size = [], 0
        cur.append(r)
        size += len(r)
    if cur:
        res += fw.run_driver(driver, cur)
    return res


def lean_lex_many(driver: str, outs: list[str]) -> list[str]:
    """wire tokens (`"<n> tok…"`) or `"err lex"` per output, one driver batch"""
    if not outs:
        return []
    res = run_batched(driver, [lex_request(o) for o in outs])
    return [r[3:] if r.startswith("ok ") else r for r in res]


def lean_lex(driver: str, out: str) -> str:
    """what the Lean lexer reads from `out`: the wire tokens exactly as `tokenizer.wire()` prints them,
    or `"err lex"` when the bytes are not a sequence of complete, canonical sequences of the library"""
    return lean_lex_many(driver, [out])[0]


def python_lex(out: str) -> str:
    try:
        return tk.wire(tk.tokenize(out))
    except tk.TokenizeError:
        return "err lex"


def cross_check(driver: str, outs: list[str], lean: dict[str, str] | None = None) -> list[str]:
    """disagreements between the Python tokenizer and the Lean lexer on the same real outputs
    (one line per disagreeing output; empty when they agree everywhere). `lean`: readings already
    obtained from the driver (output -> `"<n> tok…"` | `"err lex"`); the others are asked for in one batch."""
    outs = list(dict.fromkeys(outs))
    lean = dict(lean or {})
    todo = [o for o in outs if o not in lean]
    lean.update(zip(todo, lean_lex_many(driver, todo)))
    bad = []
    for o in outs:
        p, l = python_lex(o), lean[o]
        if p != l:
            bad.append(f"output {hx(o)[:160]}…({len(o)} chars): python `{p[:200]}` lean `{l[:200]}`")
    return bad
