#!/venv/bin/python
"""Self-test of py2lean: (1) synthetic functions covering every construct of the subset are translated and
`lean/TIV/Common/PySelfTest.lean` is written — its `example`s compare, in the Lean kernel, the generated
definitions with what CPython computed on sampled arguments (negative operands of // and %, shifts, chained
comparisons, int truthiness, and/or on ints, loops, raises, tables, calls); (2) constructs outside the subset
must raise `Untranslatable`.

    /venv/bin/python harness/common/py2lean_selftest.py        # rewrites the Lean file and runs the negative tests
"""
from __future__ import annotations

import os
import sys

sys.path.insert(0, os.path.dirname(os.path.dirname(os.path.abspath(__file__))))
from common.py2lean import BOOL, INT, Fn, Translator, Untranslatable  # noqa: E402

TABLE = ((3, 4), (5, -6), (-7, 8))
LIMIT = 2**5


def divmod_all(a, b):
    return a // b, a % b, a // 3, a % 3, a // -3, a % -3


def shifts(a, n):
    return a << n, a >> n, a >> 2, (a << 3) - 1


def chained(a, b, c):
    if a < b <= c:
        return 1
    elif a == b != c:
        return 2
    elif not a > b >= c:
        return 3
    return 4


def truthy(a, b, flag):
    x = a or b
    y = a and b
    z = 0
    if a and not flag:
        z = 1
    if b or flag:
        z += 2
    return x, y, z, not a, bool_id(flag and a > b)


def bool_id(f):
    return f


def member(a, b):
    return (a in (1, b, LIMIT), a not in (0, b), max(a, b, 3), min(a, b, -3), abs(a - b), int(a > b))


def table(i, k):
    n, d = TABLE[i]
    return n * k // d, TABLE[1][0], TABLE[-1][1]


def loop_sum(n, m):
    s = 0
    p = 1
    for i in range(n):
        s += i * i
        if i % 2:
            p = p * 2 % 1000
    for j in range(m, n):
        s -= j
    return s, p


def early(a, b):
    if a < 0:
        raise ValueError("negative")
    if b == 0:
        return -1
    q = a // b
    if q > 10:
        q = 10
    elif q < -10:
        raise OverflowError
    else:
        pass
    r = a - q * b
    return q + r


def caller(a, b):
    x = early(a, b)
    y, z = divmod_pair(a, b)
    return x + y + z


def divmod_pair(a, b):
    q, r = a // b, a % b
    q, r = r, q  # simultaneous swap
    return q, r


def cond_expr(a, b):
    w = a // b if b else a
    return w if w > 0 else -w


def partial_assign(a):
    if a > 0:
        k = 1
    else:
        pass
    return a


SPECS = [
    Fn(py=divmod_all, lean="divmod_all", params=[("a", INT), ("b", INT)]),
    Fn(py=shifts, lean="shifts", params=[("a", INT), ("n", INT)],
       domain=lambda r: dict(a=r.randint(-50, 50), n=r.randint(-2, 9))),
    Fn(py=chained, lean="chained", params=[("a", INT), ("b", INT), ("c", INT)],
       domain=lambda r: dict(a=r.randint(-2, 2), b=r.randint(-2, 2), c=r.randint(-2, 2)), samples=40),
    Fn(py=bool_id, lean="bool_id", params=[("f", BOOL)], samples=2),
    Fn(py=truthy, lean="truthy", params=[("a", INT), ("b", INT), ("flag", BOOL)],
       domain=lambda r: dict(a=r.randint(-1, 2), b=r.randint(-1, 2), flag=r.random() < 0.5), samples=40),
    Fn(py=member, lean="member", params=[("a", INT), ("b", INT)],
       domain=lambda r: dict(a=r.choice([0, 1, 2, 32, -3]), b=r.choice([0, 1, 2, 32, -3]))),
    Fn(py=table, lean="table", params=[("i", INT), ("k", INT)],
       domain=lambda r: dict(i=r.randint(-4, 3), k=r.randint(-20, 20)), samples=40),
    Fn(py=loop_sum, lean="loop_sum", params=[("n", INT), ("m", INT)],
       domain=lambda r: dict(n=r.randint(-2, 12), m=r.randint(-2, 12))),
    Fn(py=early, lean="early", params=[("a", INT), ("b", INT)],
       domain=lambda r: dict(a=r.randint(-3, 60), b=r.randint(-3, 4)), samples=40),
    Fn(py=divmod_pair, lean="divmod_pair", params=[("a", INT), ("b", INT)],
       domain=lambda r: dict(a=r.randint(-30, 30), b=r.randint(-3, 3))),
    Fn(py=caller, lean="caller", params=[("a", INT), ("b", INT)],
       domain=lambda r: dict(a=r.randint(-3, 60), b=r.randint(-3, 4)), samples=40),
    Fn(py=cond_expr, lean="cond_expr", params=[("a", INT), ("b", INT)],
       domain=lambda r: dict(a=r.randint(-30, 30), b=r.randint(-3, 3))),
    Fn(py=partial_assign, lean="partial_assign", params=[("a", INT)], samples=4),
]


# ---- outside the subset: each must raise Untranslatable ------------------------------------------------


def n_float(a):
    return a / 2


def n_str(a):
    return "x" * a


def n_while(a):
    while a > 0:
        a -= 1
    return a


def n_attr(self):
    return self.width + 1


def n_call(a):
    return len(str(a))


def n_guard_in_shortcircuit(a, b):
    return a > 0 and 10 // a > b


def n_return_in_loop(n):
    for i in range(n):
        if i == 3:
            return i
    return -1


def n_falls_off(a):
    if a > 0:
        return 1


def n_undefined_after_if(a):
    if a > 0:
        k = 1
    return k


def n_mixed_types(a):
    return a if a > 0 else False


def n_listcomp(a):
    return sum([i for i in range(a)])


def n_starred(a, b):
    x, *y = a, b, a
    return x


def n_try(a):
    try:
        return 1 // a
    except ZeroDivisionError:
        return 0


def n_pow(a, b):
    return a**b


NEGATIVE = [n_float, n_str, n_while, n_attr, n_call, n_guard_in_shortcircuit, n_return_in_loop, n_falls_off,
            n_undefined_after_if, n_mixed_types, n_listcomp, n_starred, n_try, n_pow]


def main() -> int:
    tr = Translator("TIV.Common.PySelfTest", "harness/common/py2lean_selftest.py")
    for s in SPECS:
        tr.add(s)
    out = os.path.join(os.path.dirname(os.path.abspath(__file__)), "..", "..", "lean", "TIV", "Common", "PySelfTest.lean")
    with open(out, "w") as f:
        f.write(tr.render())
    print("wrote", os.path.normpath(out))
    bad = 0
    for f in NEGATIVE:
        import inspect

        names = list(inspect.signature(f).parameters)
        try:
            Translator("X", "selftest").add(Fn(py=f, lean=f.__name__, params=[(n, INT) for n in names if n != "self"]))
        except Untranslatable as e:
            print(f"ok   {f.__name__}: {str(e)[:150]}")
        else:
            print(f"FAIL {f.__name__}: translated although outside the subset")
            bad += 1
    # a rewrite that no longer matches must fail too
    try:
        Translator("X", "selftest").add(Fn(py=n_attr, lean="x", params=[("w", INT)], rewrite={"self.height": "w"}))
    except Untranslatable as e:
        print(f"ok   stale rewrite: {str(e)[:150]}")
    else:
        print("FAIL stale rewrite accepted")
        bad += 1
    return 1 if bad else 0


if __name__ == "__main__":
    sys.exit(main())
