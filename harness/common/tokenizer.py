"""Strict tokenizer of what term-image writes to a terminal → wire tokens of TIV.Common.TermDrive.

Anything that is not exactly one of the library's control sequences in canonical form (or a
printable character, LF, CR, NUL) raises TokenizeError — an incomplete or malformed control
sequence is a finding, not something to skip. Every token is re-serialised independently and
compared with the span it was read from.
"""
from __future__ import annotations

import re
from dataclasses import dataclass, field

ESC = "\x1b"


class TokenizeError(Exception):
    pass


@dataclass
class Token:
    wire: str  # the word sent to the Lean driver
    span: str  # the exact source text
    info: dict = field(default_factory=dict)


_CSI = re.compile(r"\x1b\[(\??)([0-9;]*)([A-Za-z])")
_APC = re.compile(r"\x1b_G([^;\x1b]*);([^\x1b]*)\x1b\\")
_OSC = re.compile(r"\x1b\]1337;File=([^:\x1b\x07]*):([^\x1b\x07]*)\x1b\\")
_NUM = re.compile(r"0|[1-9][0-9]*")
_B64 = re.compile(r"[A-Za-z0-9+/]*={0,2}")


def _num(s: str) -> int:
    if not _NUM.fullmatch(s):
        raise TokenizeError(f"non-canonical number {s!r}")
    return int(s)


def _kv(ctrl: str) -> dict:
    out = {}
    for item in ctrl.split(","):
        if "=" not in item:
            raise TokenizeError(f"bad control item {item!r}")
        k, v = item.split("=", 1)
        if k in out:
            raise TokenizeError(f"duplicate control key {k!r}")
        out[k] = v
    return out


def tokenize(s: str) -> list[Token]:
    toks: list[Token] = []
    i, n = 0, len(s)
    pending = None  # chunked kitty transmission in progress: (first keys, [chunks], start index)
    while i < n:
        ch = s[i]
        if ch == ESC:
            m = _APC.match(s, i)
            if m:
                ctrl, payload = m.group(1), m.group(2)
                if not _B64.fullmatch(payload):
                    raise TokenizeError("kitty payload is not base64")
                keys = _kv(ctrl)
                if pending is not None:
                    if set(keys) != {"m"} or keys["m"] not in "01":
                        if ctrl == "q=1,m=0":  # KITTY_END_CHUNKED terminates a cut transmission
                            pending = None
                            toks.append(Token("ke", m.group()))
                            i = m.end()
                            continue
                        raise TokenizeError(f"continuation chunk with keys {sorted(keys)}")
                    pending[1].append((keys["m"] == "1", payload))
                    pending[3] += m.group()
                    if keys["m"] == "0":
                        toks.append(_kitty_token(*pending))
                        pending = None
                    i = m.end()
                    continue
                if keys.get("a") == "d":
                    if ctrl == "a=d,d=C":
                        toks.append(Token("kd", m.group()))
                    elif ctrl == "a=d,d=A":
                        toks.append(Token("ka", m.group()))
                    elif set(keys) == {"a", "d", "z"} and keys["d"] == "Z":
                        z = int(keys["z"])
                        if str(z) != keys["z"]:
                            raise TokenizeError("non-canonical z")
                        toks.append(Token(f"kz{z}", m.group()))
                    else:
                        raise TokenizeError(f"unknown delete {ctrl!r}")
                    if payload:
                        raise TokenizeError("delete with payload")
                elif ctrl == "q=1,m=0":
                    toks.append(Token("ke", m.group()))
                elif keys.get("a") == "T":
                    if keys.get("m") not in ("0", "1"):
                        raise TokenizeError("first chunk without m flag")
                    first = dict(keys)
                    cur = [first, [(keys["m"] == "1", payload)], ctrl, m.group()]
                    if keys["m"] == "0":
                        toks.append(_kitty_token(*cur))
                    else:
                        pending = cur
                else:
                    raise TokenizeError(f"unknown kitty command {ctrl!r}")
                i = m.end()
                continue
            if pending is not None:
                raise TokenizeError("non-graphics output inside a chunked transmission")
            m = _OSC.match(s, i)
            if m:
                ctrl, payload = m.group(1), m.group(2)
                if not _B64.fullmatch(payload):
                    raise TokenizeError("iterm2 payload is not base64")
                keys = {}
                for item in ctrl.split(";"):
                    k, _, v = item.partition("=")
                    keys[k] = v
                w, h = _num(keys.get("width", "x")), _num(keys.get("height", "x"))
                nm = keys.get("doNotMoveCursor", "0") == "1"
                toks.append(Token(f"I{w},{h},{int(nm)}", m.group(), {"keys": keys, "payload": payload, "control": ctrl}))
                i = m.end()
                continue
            m = _CSI.match(s, i)
            if m:
                q, args, fin = m.groups()
                span = m.group()
                if q:
                    if (args, fin) == ("25", "h"):
                        w = "sc"
                    elif (args, fin) == ("25", "l"):
                        w = "hc"
                    elif (args, fin) == ("2026", "h"):
                        w = "sb"
                    elif (args, fin) == ("2026", "l"):
                        w = "se"
                    else:
                        raise TokenizeError(f"unknown private mode {span!r}")
                elif fin == "m":
                    if args == "":
                        w = "m"
                    else:
                        a = args.split(";")
                        if len(a) == 5 and a[0] in ("38", "48") and a[1] == "2":
                            r, g, b = (_num(x) for x in a[2:])
                            if max(r, g, b) > 255:
                                raise TokenizeError(f"colour component out of range in {span!r}")
                            w = ("f" if a[0] == "38" else "b") + f"{r},{g},{b}"
                        else:
                            raise TokenizeError(f"unknown SGR {span!r}")
                elif fin in "ABCDX":
                    w = fin + str(_num(args))
                else:
                    raise TokenizeError(f"unknown CSI {span!r}")
                toks.append(Token(w, span))
                i = m.end()
                continue
            if s.startswith(ESC + "\\", i):
                toks.append(Token("st", ESC + "\\"))
                i += 2
                continue
            raise TokenizeError(f"incomplete or unknown escape sequence at {i}: {s[i:i+24]!r}")
        if pending is not None:
            raise TokenizeError("non-graphics output inside a chunked transmission")
        if ch == "\n":
            toks.append(Token("lf", ch))
        elif ch == "\r":
            toks.append(Token("cr", ch))
        elif ch == "\0":
            toks.append(Token("n", ch))
        elif ch == " ":
            toks.append(Token("gB", ch))
        elif ch == "▀":
            toks.append(Token("gU", ch))
        elif ch == "▄":
            toks.append(Token("gL", ch))
        elif ch.isprintable():
            toks.append(Token(f"gC{ord(ch)}", ch))
        else:
            raise TokenizeError(f"unexpected control character {ch!r} at {i}")
        i += 1
    if pending is not None:
        raise TokenizeError("chunked transmission not terminated (no m=0 chunk)")
    if "".join(t.span for t in toks) != s:
        raise TokenizeError("tokenizer self-check failed")
    return toks


def _kitty_token(first: dict, chunks: list, ctrl: str, span: str) -> Token:
    try:
        c, r = _num(first["c"]), _num(first["r"])
        z = int(first.get("z", "0"))
    except KeyError as e:
        raise TokenizeError(f"display command without {e}")
    if first.get("C") != "1":
        raise TokenizeError("display command without C=1")
    return Token(f"K{c},{r},{z}", span, {"keys": first, "chunks": chunks, "control": ctrl})


def wire(tokens: list[Token]) -> str:
    return " ".join([str(len(tokens))] + [t.wire for t in tokens])


def split_lines(tokens: list[Token]) -> list[list[Token]]:
    lines, cur = [], []
    for t in tokens:
        if t.wire == "lf":
            lines.append(cur)
            cur = []
        else:
            cur.append(t)
    lines.append(cur)
    return lines
