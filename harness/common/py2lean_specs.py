"""What is translated for which property (the second tie; see docs/translator.md).

`translated("C05")` returns `{"TIV/C05/Translated.lean": <text>}` regenerated from the *current* source of
the imported package; a property's `gen_constants()` merges it into the dict it returns.  Any failure raises
`py2lean.Untranslatable`, which the framework reports as a broken tie (`translator: Untranslatable: …`).

For every function: `params` are the parameters of the generated Lean definition; `rewrite` lists, verbatim,
which pieces of object plumbing of the source became parameters (also printed in the generated file's header).
"""
from __future__ import annotations

import ast

from .py2lean import BOOL, INT, Fn, Translator, stmts_from, the

II = (INT, INT)


def _pos(rng, lo=0, hi=40):
    return rng.randint(lo, hi)


# ---------------------------------------------------------------------------------------------------------


def c05() -> Translator:
    from term_image.image.common import BaseImage
    from term_image.padding import AlignedPadding, Padding

    tr = Translator("TIV.C05.Translated", "harness/c05.py")

    def dom_exact(rng):
        w, h = rng.randint(-3, 30), rng.randint(-3, 30)
        return dict(relative=not (w > 0 < h), width=w, height=h, h_align=rng.choice([0, 1, 2, 2, 1, 0, 3, -1]),
                    v_align=rng.choice([0, 1, 2, 0, 1, 2, -4, 2]), render_size=(rng.randint(0, 20), rng.randint(0, 20)))

    tr.add(Fn(
        py=AlignedPadding._get_exact_dimensions_, lean="get_exact_dimensions",
        params=[("relative", BOOL), ("width", INT), ("height", INT), ("h_align", INT), ("v_align", INT),
                ("render_size", II)],
        rewrite={"self.relative": "relative", "astuple(self)[:4]": "(width, height, h_align, v_align)"},
        domain=dom_exact,
        note="`self.relative` and the four dataclass fields read through `astuple(self)[:4]` are parameters; "
             "`h_align`/`v_align` are the IntEnum values"))
    tr.add(Fn(
        py=AlignedPadding.get_padded_size, lean="get_padded_size",
        params=[("relative", BOOL), ("width", INT), ("height", INT), ("render_size", II)],
        rewrite={"self.relative": "relative", "self.width": "width", "self.height": "height"},
        tuple_ctors=("_Size",),
        domain=lambda rng: (lambda d: dict(relative=d["relative"], width=d["width"], height=d["height"],
                                           render_size=d["render_size"]))(dom_exact(rng)),
        note="`_Size` (= `Size._new`) is checked live to build the plain tuple of its arguments"))
    tr.add(Fn(
        py=AlignedPadding.resolve, lean="resolve",
        params=[("relative", BOOL), ("self_width", INT), ("self_height", INT), ("terminal_size", II)],
        rewrite={"self.relative": "relative",
                 "return self": "return (self_width, self_height)",
                 "width, height, *args, _ = astuple(self)": "width, height = self_width, self_height",
                 "type(self)(width, height, *args)": "(width, height)"},
        domain=lambda rng: (lambda w, h: dict(relative=not (w > 0 < h), self_width=w, self_height=h,
                                              terminal_size=(rng.randint(1, 30), rng.randint(1, 30))))(
            rng.randint(-35, 10), rng.randint(-35, 10)),
        note="the result is the (width, height) of the returned instance; the other fields are passed through "
             "unchanged by `*args`"))
    tr.add(Fn(
        py=Padding.get_padded_size, lean="base_get_padded_size",
        params=[("relative", BOOL), ("width", INT), ("height", INT), ("h_align", INT), ("v_align", INT),
                ("render_size", II)],
        rewrite={"self._get_exact_dimensions_(render_size)":
                 "get_exact_dimensions(relative, width, height, h_align, v_align, render_size)"},
        tuple_ctors=("_Size",), domain=dom_exact,
        note="the base-class method, dispatched to AlignedPadding's `_get_exact_dimensions_` (translated above)"))
    # old API: `_check_formatting` — the two statements resolving a relative pad width / height
    for axis, attr in (("width", "columns"), ("height", "lines")):
        tr.add(Fn(
            py=BaseImage._check_formatting, lean=f"check_formatting_{axis}",
            pick=stmts_from(f"{axis} = {axis} if {axis} > 0 else", 1), outputs=[axis],
            params=[(axis, INT), (f"terminal_{attr}", INT)],
            rewrite={f"terminal_size.{attr}": f"terminal_{attr}"},
            domain=lambda rng, axis=axis, attr=attr: {axis: rng.randint(-40, 10), f"terminal_{attr}": rng.randint(1, 30)}))
    # old API: `_format_render` — the inner if/elif/else computing the vertical margins (pure ints)
    tr.add(Fn(
        py=BaseImage._format_render, lean="format_render_vertical",
        pick=stmts_from("if v_align == '^':", 1), outputs=["top", "bottom"],
        params=[("v_is_top", BOOL), ("v_is_bottom", BOOL), ("height", INT), ("lines", INT)],
        rewrite={"v_align == '^'": "v_is_top", "v_align == '_'": "v_is_bottom"},
        note="inside `if height > lines:`; the two string comparisons are parameters"))
    # … and the horizontal one, where the margins are strings of blanks: `' ' * n` is represented by n (n ≥ 0 there)
    tr.add(Fn(
        py=BaseImage._format_render, lean="format_render_horizontal",
        pick=stmts_from("if h_align == '<':", 1), outputs=["left", "right"],
        params=[("h_is_left", BOOL), ("h_is_right", BOOL), ("width", INT), ("cols", INT)],
        rewrite={"h_align == '<'": "h_is_left", "h_align == '>'": "h_is_right",
                 "''": "0", "' ' * (width - cols)": "max(width - cols, 0)",
                 "' ' * ((width - cols) // 2)": "max((width - cols) // 2, 0)",
                 "' ' * (width - cols - len(left))": "max(width - cols - left, 0)"},
        note="inside `if width > cols:`; a string of blanks is represented by its length: "
             "`' ' * n` -> max(n, 0), `''` -> 0, `len(left)` -> left"))
    return tr


def c06() -> Translator:
    """C06 uses the same old-API kernels as C05 (`OldCfg.margins`, relative-dimension resolution)"""
    tr = c05()
    keep = {"check_formatting_width", "check_formatting_height", "format_render_vertical", "format_render_horizontal"}
    tr.done = [d for d in tr.done if d.spec.lean in keep]
    tr.namespace, tr.origin = "TIV.C06.Translated", "harness/c06.py"
    # new API: the size decision of `Renderable._init_render_` — on the RESOLVED padded size, whatever the padding's shape
    from term_image.renderable import Renderable
    tr.add(Fn(
        py=Renderable._init_render_, lean="init_render_check", pick=stmts_from("if check_size:", 2),
        params=[("check_size", BOOL), ("allow_scroll", BOOL), ("padding", BOOL), ("padded_size", II), ("terminal_size", II)],
        rewrite={"render_size: Size = render_data[Renderable].size": "pass",
                 "padding.get_padded_size(render_size) if padding else render_size": "padded_size",
                 "renderer(render_data, render_args), padding": "True"},
        exc={"RenderSizeOutofRangeError": "RenderSizeOutofRangeError"},
        domain=lambda rng: dict(check_size=rng.random() < .7, allow_scroll=rng.random() < .5, padding=rng.random() < .5,
                                padded_size=(rng.randint(1, 20), rng.randint(1, 20)),
                                terminal_size=(rng.randint(1, 20), rng.randint(1, 20))),
        note="`padded_size` = `padding.get_padded_size(render_size) if padding else render_size` (the padding already "
             "resolved); the statement after the block is the `return renderer(...)`, represented by True; `padding` only "
             "selects the wording of the message"))
    return tr


def c17() -> Translator:
    from term_image.widget._urwid import UrwidImageCanvas

    tr = Translator("TIV.C17.Translated", "harness/c17.py")

    def dom(rng):
        size = rng.randint(1, 30)
        img = rng.randint(1, size)
        p1 = rng.randint(0, size - img)
        t1 = rng.randint(0, size)
        return dict(size=size, image_size=img, trim_side1=t1, pad_side1=p1, trim_side2=rng.randint(0, size - t1),
                    pad_side2=size - img - p1)

    tr.add(Fn(py=UrwidImageCanvas._ti_calc_trim, lean="calc_trim",
              params=[(n, INT) for n in "size image_size trim_side1 pad_side1 trim_side2 pad_side2".split()],
              domain=dom))
    for axis, first, a, b, c1, c2 in (("v", "if v_align == '^':", "pad_top", "pad_bottom", "^", "_"),
                                      ("h", "if h_align == '<':", "pad_left", "pad_right", "<", ">")):
        tr.add(Fn(py=UrwidImageCanvas.content, lean=f"pad_split_{axis}",
                  pick=stmts_from(first, 1), outputs=[a, b],
                  params=[("is_first", BOOL), ("is_last", BOOL), ("pad", INT)],
                  rewrite={f"{axis}_align == '{c1}'": "is_first", f"{axis}_align == '{c2}'": "is_last"},
                  note="the alignment-character comparisons are parameters"))
    return tr


def c03() -> Translator:
    from term_image.image.common import GraphicsImage
    from term_image.image.kitty import KittyImage

    tr = Translator("TIV.C03.Translated", "harness/c03.py")
    tr.add(Fn(
        py=GraphicsImage._get_minimal_render_size, lean="get_minimal_render_size",
        params=[("render_size", II), ("original_size", II), ("rendered_height", INT), ("adjust", BOOL)],
        rewrite={"self._get_render_size()": "render_size", "self._original_size": "original_size",
                 "self.rendered_height": "rendered_height"},
        domain=lambda rng: dict(render_size=(rng.randint(0, 40), rng.randint(0, 40)),
                                original_size=(rng.randint(1, 40), rng.randint(1, 40)),
                                rendered_height=rng.randint(0, 9), adjust=rng.random() < 0.6),
        note="`mul` is `operator.mul` (checked live)"))
    tr.add(Fn(
        py=KittyImage._render_image, lean="kitty_lines_geometry",
        pick=stmts_from("cell_height = height // r_height", 2), outputs=["cell_height", "bytes_per_line"],
        params=[("width", INT), ("height", INT), ("r_height", INT), ("format", INT)],
        domain=lambda rng: dict(width=rng.randint(0, 60), height=rng.randint(0, 60), r_height=rng.randint(0, 7),
                                format=rng.choice([24, 32, 100, 8, 7])),
        note="the LINES branch: `cell_height = height // r_height; bytes_per_line = width * cell_height * (format // 8)`"))
    return tr


def c12() -> Translator:
    from term_image import _ctlseqs as ctlseqs

    tr = Translator("TIV.C12.Translated", "harness/c12.py")
    tr.add(Fn(
        py=ctlseqs.x_parse_color, lean="x_parse_color_scale",
        pick=the(ast.ListComp, "elt"), pick_doc="the element expression of the list comprehension over the components",
        params=[("value", INT), ("ndigits", INT)],
        rewrite={"int(component, 16)": "value", "len(component)": "ndigits"},
        domain=lambda rng: (lambda n: dict(value=rng.randint(0, 16 ** n - 1) if n > 0 else 0, ndigits=n))(rng.randint(0, 4)),
        note="one colour component: `value` = int(component, 16), `ndigits` = len(component)"))
    for name in ("cursor_up", "cursor_down", "cursor_forward", "cursor_backward"):
        arg = "lines" if name in ("cursor_up", "cursor_down") else "columns"
        tr.add(Fn(
            py=getattr(ctlseqs, name), lean=f"{name}_count",
            params=[(arg, INT)],
            rewrite={f"{name.upper()} % {arg}": arg, "''": "0"},
            note=f"the emitted sequence is represented by its count parameter: `{name.upper()} % n` -> n, `''` -> 0"))
    return tr


def c04() -> Translator:
    from term_image.image.block import BlockImage
    from term_image.image.common import BaseImage, GraphicsImage

    tr = Translator("TIV.C04.Translated", "harness/c04.py")
    tr.add(Fn(
        py=BaseImage._valid_size, lean="resolve_frame_dim",
        pick=the(ast.Lambda), pick_doc="the lambda mapped over (frame_size, get_terminal_size())",
        params=[("frame_dim", INT), ("terminal_dim", INT)],
        domain=lambda rng: dict(frame_dim=rng.randint(-40, 10), terminal_dim=rng.randint(1, 30))))
    cell = "(get_cell_size() or (1, 2))"
    for fn, k, other in (("_pixels_cols", 0, "cols"), ("_pixels_lines", 1, "lines")):
        tr.add(Fn(
            py=getattr(GraphicsImage, fn), lean=f"graphics{fn}",
            params=[("has_pixels", BOOL), ("pixels", INT), (other, INT), ("cell_dim", INT)],
            rewrite={"pixels is not None": "has_pixels", f"{cell}[{k}]": "cell_dim"},
            domain=lambda rng, other=other: {"has_pixels": rng.random() < 0.5, "pixels": rng.randint(0, 200),
                                             other: rng.randint(0, 50), "cell_dim": rng.randint(0, 20)},
            note=f"`cell_dim` = `{cell}[{k}]`; `ceil` is `math.ceil` (of an int)"))
    tr.add(Fn(
        py=BlockImage._pixels_cols, lean="block_pixels_cols",
        params=[("has_pixels", BOOL), ("pixels", INT), ("cols", INT)],
        rewrite={"pixels is not None": "has_pixels"}))
    return tr


def c18() -> Translator:
    from term_image.widget import UrwidImage

    tr = Translator("TIV.C18.Translated", "harness/c18.py")
    tr.add(Fn(
        py=UrwidImage._ti_get_z_index, lean="get_z_index_fresh",
        pick=stmts_from("z_index = __class__._ti_next_z_index", 4),
        pick_doc="the four statements after the free-list branch: read `_ti_next_z_index`, the limit check, "
                 "the update, the return",
        params=[("next_z_index", INT)],
        rewrite={"__class__._ti_next_z_index": "next_z_index", "return z_index": "return (z_index, next_z_index)"},
        domain=lambda rng: dict(next_z_index=rng.choice([1, -1, 2, -2, 5, -5, 2 ** 31, -(2 ** 31) + 1, 2 ** 31 - 1, 0])),
        note="the class attribute `_ti_next_z_index` is a parameter (value read) and the second result (value written)"))
    return tr


def c08() -> Translator:
    from term_image.render import RenderIterator
    from term_image.renderable import Seek

    tr = Translator("TIV.C08.Translated", "harness/c08.py")
    tr.add(Fn(
        py=RenderIterator.seek, lean="seek_definite",
        pick=stmts_from("frame = offset if whence is Seek.START else", 2), outputs=["frame"],
        pick_doc="the definite-frame-count branch: the assignment of `frame` and the range check that follows it",
        params=[("offset", INT), ("whence", INT), ("frame_offset", INT), ("frame_count", INT)],
        rewrite={"renderable_data.frame_offset": "frame_offset"},
        exc={"arg_value_error_range": "ValueError"},
        domain=lambda rng: dict(offset=rng.randint(-6, 6), whence=Seek(rng.randint(0, 2)), frame_offset=rng.randint(0, 5),
                                frame_count=rng.randint(1, 6)),
        note="`whence` is the IntEnum value (`is Seek.X` -> `= int(Seek.X)`); `arg_value_error_range` builds a ValueError"))
    tr.add(Fn(
        py=RenderIterator.seek, lean="seek_indefinite_rejects",
        pick=the(ast.BoolOp, where=lambda n: isinstance(n.op, ast.Or) and "Seek.END" in ast.unparse(n)),
        pick_doc="the test of the INDEFINITE branch's `if … : raise`",
        params=[("offset", INT), ("whence", INT)],
        domain=lambda rng: dict(offset=rng.randint(-3, 3), whence=Seek(rng.randint(0, 2)))))
    return tr


SPECS = {"C03": c03, "C04": c04, "C05": c05, "C06": c06, "C08": c08, "C12": c12, "C17": c17, "C18": c18}


def translated(pid: str) -> dict:
    return {f"TIV/{pid}/Translated.lean": SPECS[pid]().render()}


def with_translation(cls):
    """class decorator for a `framework.Property`: `gen_constants()` also regenerates
    `TIV/<id>/Translated.lean` and `TIV.<id>.TranslatedProps` joins the audited theorem modules"""
    orig = cls.gen_constants

    def gen_constants(self):
        out = dict(orig(self))
        out.update(translated(cls.id))
        return out

    cls.gen_constants = gen_constants
    cls.lean_props = list(cls.lean_props) + [f"TIV.{cls.id}.TranslatedProps"]
    return cls
