#!/venv/bin/python
"""C14 worker — runs forced schedules on the REAL `lock_tty` wrapper and the REAL
`Process.start` / `Process.run` wrappers of term_image.utils.

Started by harness/c14.py with stdin/stdout/stderr on a pty slave (so that `utils._tty_fd != -1`
and the wrappers get installed exactly as in real use); talks JSON lines over two pipe fds.

How the schedule is forced (no source hooks):
* every model thread is a real `threading.Thread`; it only moves when the scheduler hands it a
  command and parks again at the next *gate*;
* gates: (a) `sys.settrace` opcode tracing of the wrappers' own code objects — the thread parks
  right before every `LOAD_GLOBAL _tty_lock`; (b) `__enter__` / `__exit__` of the
  scheduler-controlled re-entrant lock objects that replace `utils._tty_lock` and what
  `mp_RLock()` / `get_context().RLock()` returns; (c) the body of the synchronized probe function;
  (d) the stand-in for the original `Process.start` (creates a *virtual child process*);
* a process = a fresh execution of utils.py's source in its own module object (own globals, own
  `_tty_lock`); a child adopts the lock through the real `_process_run_wrapper`, through
  inherited globals + run wrapper ("fork"), or through the import-time path ("import": the module
  is executed while `multiprocessing.current_process()` is the started Process object).
"""
from __future__ import annotations

import _thread
import dis
import json
import os
import sys
import threading
import types
import warnings

warnings.simplefilter("ignore")
REPO = os.environ.get("VERIF_REPO", "/repo")
sys.path.insert(0, REPO + "/src")

import multiprocessing  # noqa: E402
import multiprocessing.context as mpc  # noqa: E402
import multiprocessing.process as mpp  # noqa: E402

import term_image.utils as U0  # noqa: E402  (the real import: installs the wrappers)

UTILS_FILE = U0.__file__
UTILS_CODE = compile(open(UTILS_FILE).read(), UTILS_FILE, "exec")
REAL_RLOCK_TYPE = type(threading.RLock())
STEP_TIMEOUT = 20.0

tl = threading.local()
TRACED: dict = {}


class Signal:
    """binary semaphore on a raw lock (threading.Semaphore costs several lock round trips)"""

    def __init__(self):
        self._l = _thread.allocate_lock()
        self._l.acquire()

    def release(self):
        try:
            self._l.release()
        except RuntimeError:
            pass

    def acquire(self, timeout=-1):
        return self._l.acquire(True, timeout)


class Abort(BaseException):
    pass


class Hang(Exception):
    pass


# ------------------------------------------------------------------------------------------
# module copies = virtual processes


def _snapshot():
    return [(cls, name, cls.__dict__.get(name)) for cls in (mpp.BaseProcess, mpc.Process) for name in ("start", "run", "_bootstrap")]


def _restore(snap):
    for cls, name, val in snap:
        if val is None:
            if name in cls.__dict__:
                delattr(cls, name)
        else:
            setattr(cls, name, val)


def raw_copy(current=None):
    """Execute utils.py afresh in a new module object (what a spawned child's import does)."""
    mod = types.ModuleType("term_image.utils")
    mod.__package__ = "term_image"
    mod.__file__ = UTILS_FILE
    snap = _snapshot()
    saved_cur = mpp._current_process
    if current is not None:
        mpp._current_process = current
    hooks = []
    saved_raf = getattr(os, "register_at_fork", None)
    if saved_raf is not None:
        # at-fork hooks the module registers are recorded (and run when a child is "forked" in the
        # simulation) instead of being installed in this worker process
        os.register_at_fork = lambda **kw: hooks.append(kw)
    try:
        exec(UTILS_CODE, mod.__dict__)
    finally:
        if saved_raf is not None:
            os.register_at_fork = saved_raf
        mpp._current_process = saved_cur
        _restore(snap)
    mod.__dict__["_c14_atfork"] = hooks
    fd = mod.__dict__.get("_tty_fd", -1)
    if fd != -1 and fd != U0._tty_fd:
        try:
            os.close(fd)
        except OSError:
            pass
    return mod


_OFFS_CACHE: dict = {}


def load_offsets(code):
    """offset -> ordinal of the `LOAD_GLOBAL _tty_lock` instructions of a wrapper"""
    key = (code.co_name, code.co_code, code.co_names)
    if key not in _OFFS_CACHE:
        _OFFS_CACHE[key] = _load_offsets(code)
    return _OFFS_CACHE[key]


def _load_offsets(code):
    offs, k = {}, 0
    for ins in dis.get_instructions(code):
        if ins.opname == "LOAD_GLOBAL" and ins.argval == "_tty_lock":
            k += 1
            offs[ins.offset] = k
    return offs


class CtlLock:
    """scheduler-controlled re-entrant lock"""

    def __init__(self, name):
        self.name = name
        self.owner = None
        self.count = 0

    def __enter__(self):
        th = tl.th
        if th.aborting:
            raise Abort()
        arrived = f"ld:{self.name}"
        while True:
            th.wait_lock = self
            th.gate(("adv",), arrived)
            th.wait_lock = None
            arrived = None
            if self.owner is None or self.owner == th.tid:
                self.owner = th.tid
                self.count += 1
                th.stack.append(self)
                th.event = f"aq:{self.name}:{self.count}"
                return self
            if th.sch.depth[th.tid] > 0:
                th.sch.viol.append(
                    f"reentrant: thread {th.tid} inside a synchronized call blocks on {self.name} held by {self.owner}")
            th.event = "x"

    acquire = __enter__

    def __exit__(self, *exc):
        th = tl.th
        if th.aborting:
            return False
        arrived = None
        if th.pending_pass:
            th.pending_pass = False
            arrived = f"pass:{lock_name(getattr(th.procobj, '_tty_lock', None))}"
        if not th.in_start and len(th.stack) % 2 == 0:
            # leaving the body of a section: the model's `ret` step (the probe body has taken it
            # already; real code arrives here directly)
            if th.ret_consumed:
                th.ret_consumed = False
            else:
                th.gate(("adv",), arrived)
                arrived = "ret"
        th.gate(("adv",), arrived)
        if th.stack and th.stack[-1] is self:
            th.stack.pop()
        if self.owner != th.tid:
            th.event = "x-release-unowned"
            raise RuntimeError("cannot release un-acquired lock")
        self.count -= 1
        if self.count == 0:
            self.owner = None
        th.event = f"rl:{self.name}:{self.count}"
        return False

    def release(self):
        self.__exit__(None, None, None)


class CtlT(CtlLock):
    pass


class CtlM(CtlLock):
    pass


def lock_name(obj):
    return obj.name if isinstance(obj, CtlLock) else ("none" if obj is None else type(obj).__name__)


class PassiveT(CtlT):
    """stands in for `_cell_size_lock` (a thread lock of `_rlock_type`, not part of C14)"""

    def __enter__(self):
        return self

    def __exit__(self, *exc):
        return False


class FakeArray:
    def __iter__(self):
        return iter([0, 0, 0, 0])

    def __getitem__(self, i):
        return [0, 0, 0, 0][i]

    def __setitem__(self, i, v):
        pass

    def __init__(self, *a):
        self._l = PassiveT("cell-array")  # never blocks for real: every wait must go through a gate

    def get_lock(self):
        return self._l


class FakeCtx:
    def __init__(self, pid):
        self.pid = pid

    def RLock(self):
        return new_lock(self.pid)

    def Array(self, *a, **k):
        return FakeArray()


class ProbeError(Exception):
    """raised by a probe body on command (a synchronized function that fails)"""


def new_lock(pid):
    th = tl.th
    th.gate(("adv",), "chk:sw")
    k = th.sch.created.get(pid, 0) + 1
    th.sch.created[pid] = k
    # distinct lock objects get distinct names (the model knows one process lock per creator)
    lk = CtlM(f"M{pid}" if k == 1 else f"M{pid}#{k}")
    th.event = f"sw:{lk.name}"
    return lk


class FakeOS:
    def __init__(self, sch, fd):
        self._sch, self._fd = sch, fd

    def __getattr__(self, n):
        return getattr(os, n)

    def write(self, fd, data):
        if fd != self._fd:
            return os.write(fd, data)
        th = tl.th
        th.gate(("wr",))
        q = self._sch.term_write(th, bytes(data))
        th.event = f"wr:{q}"
        return len(data)

    def read(self, fd, n):
        if fd != self._fd:
            return os.read(fd, n)
        repl = self._sch.repl
        if not repl:
            return b""
        c = repl[0]
        out = c.data[c.pos:c.pos + n]
        c.pos += len(out)
        if c.pos >= len(c.data):
            repl.pop(0)
        return out


class FakeTermios:
    def __init__(self, sch):
        self._sch = sch
        import termios as _t
        self._t = _t
        self.error = _t.error

    def __getattr__(self, n):
        return getattr(self._t, n)

    def tcgetattr(self, fd):
        return [0, 0, 0, 0xFFFF, 0, 0, [0] * 32]

    def tcsetattr(self, fd, when, attr):
        if when == self._t.TCSAFLUSH:
            self._sch.flush_input(tl.th)

    def tcdrain(self, fd):
        pass


class FakeFcntl:
    def ioctl(self, fd, req, buf, *a):
        return 0  # pixel size fields stay 0: get_cell_size() takes the query path


def make_select(sch):
    def fake_select(r, w, x, timeout=None):
        """ready when a reply part is in the input queue; the thread parks before it starts on a
        new part (one model `rd` step per part) and while it has to wait for one"""
        th = tl.th
        if th.aborting:
            raise Abort()
        while True:
            if sch.repl and sch.repl[0].pos > 0:
                return (list(r), [], [])       # in the middle of a part
            if not sch.repl and timeout == 0 and not sch.pend:
                return ([], [], [])            # nothing more will come: the drain is complete
            th.gate(("rd",))
            if sch.repl and sch.repl[0].pos == 0:
                th.event = sch.term_take(th, sch.repl[0])
                return (list(r), [], [])
            th.event = "x"
    return fake_select


class VProc:
    def __init__(self, sch, pid, procobj=None, flavour="run", parent=None, fake_tty=False):
        self.pid = pid
        if procobj is not None and flavour.split("-")[0] == "import":
            mod = raw_copy(current=procobj)
        else:
            mod = raw_copy()
        self.mod = mod
        if type(mod._tty_lock) is REAL_RLOCK_TYPE:
            mod._tty_lock = CtlT(f"T{pid}")
        # `_rlock_type` is whatever the module evaluated `type(_tty_lock)` to: the thread-lock type maps
        # to the thread-lock stand-in; anything else (e.g. the type of an adopted lock) is left as it is
        if getattr(mod, "_rlock_type", None) is REAL_RLOCK_TYPE:
            mod._rlock_type = CtlT
        if type(mod._cell_size_lock) is REAL_RLOCK_TYPE:
            mod._cell_size_lock = PassiveT("cell")
        if hasattr(mod, "Array"):
            mod.Array = FakeArray
        if hasattr(mod, "mp_RLock"):
            mod.mp_RLock = lambda: new_lock(pid)
        if hasattr(mod, "get_context"):
            mod.get_context = lambda method=None: FakeCtx(pid)
        mod._process_start_wrapper.__wrapped__ = fake_start
        # a fresh thread lock created later by the module itself is a stand-in too
        mod.RLock = lambda: CtlT(f"T{pid}'")
        for wn in ("_process_run_wrapper", "_process_bootstrap_wrapper"):
            if hasattr(mod, wn):
                getattr(mod, wn).__wrapped__ = lambda self, *a, **k: None
        if procobj is not None:
            base, mods = flavour.split("-")[0], flavour.split("-")[1:]
            over = "o" if "o" in mods else ""
            if base == "fork":
                # a forked child starts with a copy of the parent's globals, then the at-fork hooks
                # registered for the child run
                mod._tty_lock = parent.mod._tty_lock
                for kw in mod._c14_atfork:
                    h = kw.get("after_in_child")
                    if h is not None:
                        h()
            if base in ("run", "fork"):
                # what the child's interpreter calls: `_bootstrap()`, which calls `run()` — the
                # library's `run` wrapper is bypassed when a Process subclass overrides run() without
                # calling the base implementation (flavours `run-o`, `fork-o`)
                if hasattr(mod, "_process_bootstrap_wrapper"):
                    mod._process_bootstrap_wrapper(procobj)
                if hasattr(mod, "_process_run_wrapper") and over != "o":
                    mod._process_run_wrapper(procobj)
        self.probe = mod.lock_tty(probe_body)
        TRACED[self.probe.__code__] = ("sync", load_offsets(self.probe.__code__))
        self.real_fns = {}
        self.fns = {"p": self.probe}
        if sch.use_screen:
            self.build_screen()
        if fake_tty:
            mod.os = FakeOS(sch, mod._tty_fd)
            mod.termios = FakeTermios(sch)
            mod.select = make_select(sch)
            mod.fcntl = FakeFcntl()
            mod.monotonic = lambda: 0.0
            mod._queries_enabled = True
            for short, name in FN_NAMES.items():
                f = getattr(mod, name)
                # below the `@cached` / `@unix_tty_only` wrappers (their private locks are not C14's)
                while hasattr(f, "__wrapped__") and "_tty_lock" not in f.__code__.co_names \
                        and "query_terminal" not in f.__code__.co_names:
                    f = f.__wrapped__
                self.real_fns[short] = f
                if "_tty_lock" in f.__code__.co_names:
                    TRACED[f.__code__] = ("sync", load_offsets(f.__code__))
        sc = mod._process_start_wrapper.__code__
        offs = dict(load_offsets(sc))
        # a re-binding of the global made while the thread holds NO terminal lock is a step of its own
        # (never the case in the code the model mirrors: there the store is part of `sw`, under the lock)
        for ins in dis.get_instructions(sc):
            if ins.opname == "STORE_GLOBAL" and ins.argval == "_tty_lock":
                offs[ins.offset] = "store"
        TRACED[sc] = ("start", offs)


def probe_body():
    return tl.th.body()


class ScreenFile:
    """terminal file of the urwid screen: writing / flushing is the body of the synchronized method"""

    def __init__(self, fd):
        self._fd = fd

    def fileno(self):
        return self._fd

    def isatty(self):
        return True

    def write(self, data):
        tl.th.body()
        return len(data)

    def flush(self):
        tl.th.body()


def _input_codes():
    tl.th.body()
    return []


def build_screen(self):
    """a REAL `UrwidImageScreen` of a fresh execution of widget/_urwid.py bound to this process's
    utils module (executed now, i.e. before any Process.start() of this process — as a program that
    imports the widget at start-up); its terminal files are stand-ins whose operations are the bodies"""
    saved = sys.modules.get("term_image.utils")
    sys.modules["term_image.utils"] = self.mod
    try:
        m = types.ModuleType("term_image.widget._urwid")
        m.__package__ = "term_image.widget"
        m.__file__ = URWID_FILE
        exec(URWID_CODE, m.__dict__)
    finally:
        if saved is not None:
            sys.modules["term_image.utils"] = saved
    scr = m.UrwidImageScreen(input=ScreenFile(0), output=ScreenFile(1))
    scr._get_input_codes = _input_codes
    self.screen = scr
    # resolved on the INSTANCE at call time: whatever `screen.write` etc. is in this version of the
    # class (the library's synchronized override, or the urwid base method if there is none)
    self.fns.update({"i": lambda: scr.get_available_raw_input(), "w": lambda: scr.write("x"),
                     "f": lambda: scr.flush()})
    for v in vars(m.UrwidImageScreen).values():
        f = v
        for _ in range(6):
            if not callable(f) or not hasattr(f, "__code__"):
                break
            if "_tty_lock" in f.__code__.co_names and f.__code__ not in TRACED:
                TRACED[f.__code__] = ("sync", load_offsets(f.__code__))
            f = getattr(f, "__wrapped__", None)


VProc.build_screen = build_screen
URWID_FILE = None
URWID_CODE = None


def load_urwid_source():
    global URWID_FILE, URWID_CODE
    if URWID_CODE is None:
        import term_image.widget._urwid as W0
        URWID_FILE = W0.__file__
        URWID_CODE = compile(open(URWID_FILE).read(), URWID_FILE, "exec")


class StartError(Exception):
    """what the stand-in for the original Process.start() raises on command"""


def fake_start(procobj, *a, **k):
    th = tl.th
    if th.aborting:
        return
    sch = th.sch
    while True:
        cmd = th.gate(("adv", "fail"))
        if cmd[0] == "fail":
            # the original Process.start() raises (e.g. the target cannot be pickled)
            th.event = "fail"
            th.in_start = False
            raise StartError("start failed")
        c = procobj._child_id
        if c in sch.vprocs:
            th.event = "x"
            continue
        sch.vprocs[c] = VProc(sch, c, procobj, sch.flav.get(str(c), "run"), sch.vprocs[th.pid])
        th.event = f"fk:{c}:{lock_name(getattr(procobj, '_tty_lock', None))}"
        th.in_start = False
        return


def noop():
    pass


# ------------------------------------------------------------------------------------------
# tracing


def tracer(frame, event, arg):
    if event == "call":
        if frame.f_code in TRACED:
            frame.f_trace_opcodes = True
            return local_tracer
    return None


def local_tracer(frame, event, arg):
    if event == "opcode":
        kind, offs = TRACED[frame.f_code]
        k = offs.get(frame.f_lasti)
        if k is not None:
            th = tl.th
            if not th.aborting:
                th.at_load(kind, k)
    return local_tracer


def warm_up():
    """CPython 3.12: per-instruction events only reach frames entered after opcode tracing has been
    requested once in the interpreter — request it once before any schedule runs."""
    def dummy():
        return 0

    def t(frame, event, arg):
        if event == "call" and frame.f_code is dummy.__code__:
            frame.f_trace_opcodes = True
            return lambda *a: None
        return None

    sys.settrace(t)
    try:
        dummy()
        dummy()
    finally:
        sys.settrace(None)


# ------------------------------------------------------------------------------------------
# threads


class Th(threading.Thread):
    def __init__(self, sch, tid, pid):
        super().__init__(daemon=True)
        self.sch, self.tid, self.pid = sch, tid, pid
        self.sem = Signal()
        self.cmd = None
        self.event = None
        self.aborting = False
        self.pending_pass = False
        self.call_consumed = False   # the `call` step of the next activation was already commanded
        self.ret_consumed = False    # the `ret` step of the current activation was already commanded
        self.in_start = False
        self.stack = []              # lock objects acquired and not yet released, in order
        self.accepts = ()
        self.wait_lock = None
        self.wait_data = False
        self.did_first = False
        self.prog = []               # fsched: names of the real functions still to call
        self.results = []
        self.procobj = None
        self.error = None

    def gate(self, accept, arrived=None):
        if arrived is not None:
            self.event = arrived
        self.accepts = accept
        while True:
            if self.aborting:
                raise Abort()
            self.sch.done.release()
            self.sem.acquire()
            if self.aborting:
                raise Abort()
            if self.cmd[0] in accept:
                return self.cmd
            self.event = "x"

    def at_load(self, kind, k):
        # called from the trace function: an exception must never propagate out of a trace
        # callback (CPython 3.12.1 crashes when an INSTRUCTION-event callback raises)
        try:
            self._at_load(kind, k)
        except Abort:
            pass

    def _at_load(self, kind, k):
        if k == "store":
            if not self.stack:
                self.gate(("adv",))
                self.event = "publish-unlocked"
            return
        if kind == "sync":
            if k == 1:
                if self.call_consumed:
                    self.call_consumed = False
                else:
                    # a nested call made by the real code itself: the model's `call` step
                    self.gate(("call",))
                self.gate(("adv",), "call")
            else:
                self.gate(("adv",))
        else:
            if k == 1:
                self.in_start = True
                self.gate(("adv",), "start")
            elif k == 2:
                self.gate(("adv",))
            else:
                self.gate(("adv",), "chk:rd")
                self.pending_pass = True

    def body(self):
        """body of the synchronized probe: write a query / read a reply part / nested call / return,
        as commanded; the outermost activation does not return while a reply part is outstanding"""
        sch = self.sch
        others = [t for t, d in sch.depth.items() if d > 0 and t != self.tid]
        if others:
            sch.viol.append(f"overlap: thread {self.tid} (process {self.pid}) entered a synchronized "
                            f"function while thread(s) {others} are inside one")
        sch.depth[self.tid] += 1
        self.call_consumed = False
        self.ret_consumed = False
        try:
            while True:
                cmd = self.gate(("adv", "wr", "rd", "call", "exc"))
                if cmd[0] in ("adv", "exc"):
                    if sch.depth[self.tid] == 1 and self.tid in sch.outq:
                        self.event = "x"
                        continue
                    self.ret_consumed = True
                    if cmd[0] == "exc":
                        self.event = "raise"
                        raise ProbeError()
                    self.event = "ret"
                    return
                if cmd[0] == "wr":
                    if self.tid in sch.outq:
                        self.event = "x"
                        continue
                    q = sch.term_write(self, None)
                    self.event = f"wr:{q}"
                elif cmd[0] == "rd":
                    if self.tid not in sch.outq or not sch.repl:
                        self.event = "x"
                        continue
                    c = sch.repl.pop(0)
                    self.event = sch.term_take(self, c)
                else:
                    self.call_consumed = True
                    self.event = "call"
                    try:
                        sch.vprocs[self.pid].probe()
                    except ProbeError:
                        pass   # handled here; this body may be told to raise in turn
                    self.ret_consumed = False
        finally:
            sch.depth[self.tid] -= 1

    def run(self):
        tl.th = self
        sys.settrace(tracer)
        try:
            while True:
                cmd = self.gate(("call", "start"))
                vp = self.sch.vprocs.get(self.pid)
                while vp is None:
                    self.event = "x"
                    cmd = self.gate(("call", "start"))
                    vp = self.sch.vprocs.get(self.pid)
                if cmd[0] == "call":
                    self.call_consumed = True
                    self.event = "call"   # (what the first gate of a synchronized function reports, too)
                    if self.sch.real:
                        if not self.prog:
                            self.call_consumed = False
                            self.event = "x"
                            continue
                        name = self.prog.pop(0)
                        if name == "cs":
                            # always take the query path (as after a terminal resize); the cache hit
                            # of get_cell_size() touches neither the terminal nor the terminal lock
                            vp.mod._cell_size_cache[:] = [0, 0, 0, 0]
                        res = vp.real_fns[name]()
                        self.results.append((name, repr(res)))
                        exp = self.sch.expected.get(name)
                        if exp is not None and repr(res) != exp:
                            self.sch.viol.append(
                                f"result: thread {self.tid} called {FN_NAMES[name]}() and got {res!r}; with the "
                                f"terminal's replies delivered to their own callers it returns {exp}")
                    else:
                        kinds = self.sch.fn_kinds
                        kind = kinds[self.tid] if self.tid < len(kinds) else "p"
                        try:
                            vp.fns.get(kind, vp.probe)()
                        except ProbeError:
                            pass
                        self.call_consumed = False
                        self.ret_consumed = False
                else:
                    # (daemonic when the child's flavour carries the `d` modifier)
                    po = multiprocessing.Process(
                        target=noop, daemon="d" in self.sch.flav.get(str(cmd[1]), "run").split("-")[1:])
                    po._child_id = cmd[1]
                    self.procobj = po
                    self.event = "start"   # (what the wrapper's first gate reports, too)
                    try:
                        vp.mod._process_start_wrapper(po)
                    except StartError:
                        pass   # the caller handles the failed start; the thread lives on
                    self.in_start = False
        except Abort:
            pass
        except BaseException as e:  # noqa: BLE001
            self.error = f"{type(e).__name__}: {e}"
            self.event = f"exc:{type(e).__name__}"
            self.sch.done.release()
        finally:
            sys.settrace(None)


class Chunk:
    """one part of the terminal's reply to a query"""

    def __init__(self, q, i, owner, data):
        self.q, self.i, self.owner, self.data, self.pos = q, i, owner, data, 0


FN_NAMES = {"nv": "get_terminal_name_version", "fb": "get_fg_bg_colors", "cs": "get_cell_size"}
# what the virtual terminal answers: (head delivered first, tail = the rest of the DA1 reply)
REPLIES = {
    "nv": (b"\x1bP>|FakeTerm(1.0)\x1b\\\x1b[", b"?62;c"),
    "fb": (b"\x1b]10;rgb:1111/2222/3333\x1b\\\x1b]11;rgb:4444/5555/6666\x1b\\\x1b[", b"?62;c"),
    "cs": (b"\x1b[6;20;10t\x1b[4;480;800t\x1b[", b"?62;c"),
}


def classify(data: bytes):
    if b"\x1b[>q" in data:
        return "nv"
    if b"\x1b]10;?" in data:
        return "fb"
    if b"\x1b[16t" in data:
        return "cs"
    return None


class Sched:
    def __init__(self, procs, flav, real=False, progs=None, fns=None):
        self.done = Signal()
        self.flav = flav
        self.real = real
        self.fn_kinds = list(fns or [])
        self.use_screen = any(k != "p" for k in self.fn_kinds)
        if self.use_screen:
            load_urwid_source()
        self.vprocs = {}
        self.depth = {}
        self.viol = []
        self.nextq = 0
        self.pend, self.repl = [], []   # undelivered / delivered reply parts (Chunk), FIFO
        self.outq = {}                  # tid -> [query, parts not yet read]
        self.created = {}               # pid -> number of process locks it created
        self.expected = EXPECTED if real else {}
        TRACED.clear()
        self.vprocs[0] = VProc(self, 0, fake_tty=real)
        self.threads = [Th(self, t, p) for t, p in enumerate(procs)]
        for th in self.threads:
            self.depth[th.tid] = 0
            if progs:
                pr = progs[th.tid] if th.tid < len(progs) else "-"
                th.prog = [f for f in pr.split("+") if f in FN_NAMES]

    # -- the virtual FIFO terminal ------------------------------------------------------
    def term_write(self, th, data):
        q = self.nextq
        self.nextq += 1
        if data is None:
            head, tail = b"h", b"t"
        else:
            kind = classify(data)
            if kind is None:
                self.viol.append(f"harness: unknown request {data!r}")
                head, tail = b"?", b"?"
            else:
                head, tail = REPLIES[kind]
        self.pend += [Chunk(q, 0, th.tid, head), Chunk(q, 1, th.tid, tail)]
        self.outq[th.tid] = [q, 2]
        return q

    def term_take(self, th, c):
        """thread `th` starts consuming reply part `c`; returns the event"""
        mine = self.outq.get(th.tid)
        if c.owner != th.tid:
            self.viol.append(f"reply: thread {th.tid} read part {c.i} of the reply to query {c.q}, which thread "
                             f"{c.owner} asked (its own query: {mine[0] if mine else 'none'})")
        ev = f"rd:{mine[0] if mine else '-'}:{c.q}.{c.i}"
        if mine:
            mine[1] -= 1
            if mine[1] <= 0:
                del self.outq[th.tid]
        return ev

    def flush_input(self, th):
        if self.repl:
            lost = [(c.q, c.i, c.owner) for c in self.repl]
            self.viol.append(f"lost: thread {th.tid} starts a query and discards unread reply parts "
                             f"(query, part, asker) = {lost}")
            for c in self.repl:
                o = self.outq.get(c.owner)
                if o:
                    o[1] -= 1
                    if o[1] <= 0:
                        del self.outq[c.owner]
            self.repl.clear()

    def respond(self):
        if not self.pend:
            return "x"
        c = self.pend.pop(0)
        self.repl.append(c)
        return f"rsp:{c.q}.{c.i}"

    def wait(self):
        if not self.done.acquire(timeout=STEP_TIMEOUT):
            raise Hang()

    def command(self, st):
        if st[0] == "r":
            return self.respond()
        t = st[1]
        if t >= len(self.threads):
            return "x"
        th = self.threads[t]
        if th.error:
            return "dead"
        th.cmd = {"c": ("call",), "a": ("adv",), "w": ("wr",), "d": ("rd",), "e": ("exc",), "f": ("fail",),
                  "s": ("start", st[2] if len(st) > 2 else 0)}[st[0]]
        th.sem.release()
        self.wait()
        return th.event

    def summary(self):
        if self.real:
            ins = [str(th.tid) for th in self.threads if len(th.stack) >= 2]
        else:
            ins = [str(t) for t in sorted(self.depth) if self.depth[t] > 0]
        curs = [f"{p}:{lock_name(self.vprocs[p].mod._tty_lock)}" for p in sorted(self.vprocs)]
        outs = [f"{t}:{o[0]}.{o[1]}" for t, o in sorted(self.outq.items())]
        unread = len(self.repl) + len(self.pend)
        if len(ins) > 1:
            self.viol.append(f"overlap: threads {ins} are inside synchronized sections at the same time")
        if all(th.accepts == ("call", "start") and not th.stack for th in self.threads) and unread:
            left = [(c.q, c.i, c.owner) for c in self.repl + self.pend]
            self.viol.append(f"unread: every thread is idle and reply parts (query, part, asker) = {left} "
                             f"were never read")
        return (f"inside={','.join(ins) if ins else '-'} cur={','.join(curs)} "
                f"out={','.join(outs) if outs else '-'} unread={unread}")

    def shutdown(self):
        for th in self.threads:
            th.aborting = True
            th.sem.release()
        for th in self.threads:
            if th.ident is not None:
                th.join(timeout=5)

    def start_threads(self):
        for th in self.threads:
            th.start()
            self.wait()

    def run(self, steps, follow=False):
        """`follow` (real query functions only): the schedule fixes WHO moves; if the recorded action
        letter does not fit what the thread is parked at (the schedule was recorded on another
        version of the code) the action the thread can take is used instead"""
        evs = []
        self.used = []
        summary = ""
        try:
            self.start_threads()
            for st in steps:
                if follow and st[0] != "r" and st[1] < len(self.threads):
                    th = self.threads[st[1]]
                    acc = th.accepts
                    if acc == ("call", "start"):
                        st = ["c", st[1]]
                    elif acc:
                        st = [{"call": "c", "adv": "a", "wr": "w", "rd": "d"}[acc[0]], st[1]]
                self.used.append("r" if st[0] == "r" else f"{st[0]}{st[1]}")
                evs.append(self.command(st))
            summary = self.summary()
        finally:
            self.shutdown()
        errs = [f"thread {th.tid}: {th.error}" for th in self.threads if th.error]
        return "ok " + "|".join(evs) + " # " + summary, self.viol, errs

    # -- online generation of a schedule for the real query functions ------------------
    def options(self, rng=None, cfg=None):
        """per thread: list of (token, step, blocked) it can be given now"""
        cfg = cfg or {}
        out = {}
        for th in self.threads:
            if th.error:
                continue
            acc = th.accepts
            t = th.tid
            opts = []
            if acc == ("call", "start"):
                if self.real:
                    if th.prog:
                        opts.append((f"c{t}", ["c", t], False))
                elif th.pid not in self.vprocs:
                    opts.append((f"c{t}", ["c", t], True))
                else:
                    first = cfg.get("first", {}).get(str(t))
                    if first and not th.did_first:
                        opts.append((f"s{t}.{first}", ["s", t, first], False))
                    else:
                        opts.append((f"c{t}", ["c", t], False))
                        if self.nstarts < cfg.get("maxstarts", 3) and rng.random() < cfg.get("p_start", 0.1):
                            c = rng.randrange(1, cfg.get("nproc", 1) + 1)
                            opts = [(f"s{t}.{c}", ["s", t, c], False)]
            elif "wr" in acc and "adv" in acc:
                # the probe body
                out_q = t in self.outq
                bottom = self.depth[t] == 1
                stuck = bottom and out_q
                if out_q:
                    opts.append((f"d{t}", ["d", t], not self.repl))
                    opts.append((f"d{t}", ["d", t], not self.repl))
                elif rng.random() < cfg.get("p_wr", 0.4):
                    opts.append((f"w{t}", ["w", t], False))
                if self.depth[t] < cfg.get("maxdepth", 2) and rng.random() < 0.35:
                    opts.append((f"c{t}", ["c", t], False))
                if not out_q or not bottom:
                    if rng.random() < cfg.get("p_exc", 0.15):
                        opts.append((f"e{t}", ["e", t], False))
                    else:
                        opts.append((f"a{t}", ["a", t], False))
                elif stuck and not opts:
                    opts.append((f"a{t}", ["a", t], True))
            else:
                a = acc[0]
                if "fail" in acc and th.procobj._child_id not in self.vprocs and rng.random() < cfg.get("p_fail", 0.1):
                    a = "fail"
                letter = {"call": "c", "adv": "a", "wr": "w", "rd": "d", "fail": "f"}[a]
                blocked = False
                if th.wait_lock is not None and th.wait_lock.owner not in (None, th.tid):
                    blocked = True
                if a == "rd" and not self.repl:
                    blocked = True
                if a == "adv" and "fail" in acc and th.procobj._child_id in self.vprocs:
                    blocked = True
                if "fail" in acc and cfg.get("hold_fk") and not any(d > 0 for d in self.depth.values()) \
                        and rng.random() < 0.9:
                    # let the original start() "take its time": other threads get the chance to enter
                    # synchronized functions between the hand-over and the outcome of the start
                    blocked = True
                opts.append((f"{letter}{t}", [letter, t], blocked))
            if opts:
                out[t] = opts
        return out

    def generate(self, rng, maxsteps, cfg=None):
        toks, evs = [], []
        summary = ""
        stick = rng.choice([0.3, 0.6, 0.85, 0.95])
        p_rsp = rng.choice([0.15, 0.4, 0.8])
        p_bad = rng.choice([0.0, 0.03, 0.1])
        last = None
        self.nstarts = 0
        for th in self.threads:
            th.did_first = False
        try:
            self.start_threads()
            for _ in range(maxsteps):
                per = self.options(rng, cfg)
                free = {t: [o for o in os_ if not o[2]] for t, os_ in per.items()}
                free = {t: v for t, v in free.items() if v}
                stuck = [o for os_ in per.values() for o in os_ if o[2]]
                if not per and not self.pend:
                    break
                waiting = any(o[0][0] == "d" for o in stuck)
                if self.pend and (not free or rng.random() < (p_rsp if waiting else 0.05)):
                    toks.append("r")
                    evs.append(self.command(["r"]))
                    continue
                if stuck and rng.random() < p_bad:
                    o = rng.choice(stuck)
                elif free:
                    lead = (cfg or {}).get("lead")
                    if lead is not None and len(toks) < 8 and lead in free:
                        t = lead      # the leading thread first (e.g. up to the outcome of its start)
                    else:
                        t = last if last in free and rng.random() < stick else rng.choice(sorted(free))
                    o = rng.choice(free[t])
                else:
                    break
                last = o[1][1]
                if o[1][0] == "s":
                    self.nstarts += 1
                    self.threads[last].did_first = True
                toks.append(o[0])
                evs.append(self.command(o[1]))
            summary = self.summary()
        finally:
            self.shutdown()
        errs = [f"thread {th.tid}: {th.error}" for th in self.threads if th.error]
        return toks, "ok " + "|".join(evs) + " # " + summary, self.viol, errs


class ObsLock:
    """a re-entrant lock that only counts (single-threaded observation of `lock_tty`)"""

    def __init__(self):
        self.count = 0

    def __enter__(self):
        self.count += 1
        return self

    def __exit__(self, *exc):
        self.count -= 1
        return False


def run_deco(ops):
    """create / lock_tty / call / drop short-lived callables with the REAL `lock_tty` of a fresh
    execution of utils.py; a call reports whether the terminal lock is held inside it"""
    mod = raw_copy()
    lock = mod._tty_lock = ObsLock()

    def make():
        def f():
            return "sync" if lock.count >= 2 else ("sync1" if lock.count == 1 else "plain")
        return f

    slots, decorated, outs, viol = {}, {}, [], []
    for k, op in enumerate(ops):
        kind, i = op[0], int(op[1:])
        if kind == "n":
            slots[i] = make()
            decorated[i] = False
            outs.append("new")
        elif i not in slots:
            outs.append("x")
        elif kind == "d":
            old = slots[i]
            r = mod.lock_tty(old)
            outs.append("same" if r is old else "wrap")
            if r is old and not decorated[i]:
                viol.append(f"unsync: op {k} ({op}): lock_tty(f) returned f itself for a function object that was "
                            f"never decorated (id {id(old):#x})")
            slots[i] = r
            decorated[i] = True
            del old, r
        elif kind == "c":
            o = slots[i]()
            outs.append(o)
            if decorated[i] and o != "sync":
                viol.append(f"unsync: op {k} ({op}): a callable returned by lock_tty() ran without the terminal "
                            f"lock held (lock count inside the call: {lock.count})")
        elif kind == "x":
            del slots[i]
            outs.append("drop")
        else:
            outs.append("?")
    return {"res": "ok " + "|".join(outs), "viol": viol, "errs": []}


EXPECTED: dict = {}


def compute_expected():
    """what each query function returns when it runs alone on the virtual terminal"""
    import random as _r
    for name in FN_NAMES:
        sch = Sched([0], {}, real=True, progs=[name])
        sch.expected = {}
        sch.generate(_r.Random(0), 400)
        th = sch.threads[0]
        if th.results:
            EXPECTED[name] = th.results[0][1]


# ------------------------------------------------------------------------------------------
# translator facts (read from the live objects of the process where the wrappers are installed)


def wrapper_ops(code, stop_at=None):
    ops = []
    for ins in dis.get_instructions(code):
        if stop_at and ins.argval == stop_at:
            break
        if ins.opname == "LOAD_GLOBAL" and ins.argval in ("_tty_lock", "_rlock_type"):
            ops.append(f"load {ins.argval}")
        elif ins.opname == "LOAD_GLOBAL" and ins.argval == "mp_RLock":
            ops.append("new")
        elif ins.opname == "LOAD_ATTR" and ins.argval == "RLock":
            ops.append("new")
        elif ins.opname == "STORE_GLOBAL" and ins.argval == "_tty_lock":
            ops.append("store _tty_lock")
        elif ins.opname == "STORE_ATTR" and ins.argval == "_tty_lock":
            ops.append("pass")
        elif ins.opname == "BEFORE_WITH":
            ops.append("enter")
        elif ins.opname == "CALL_FUNCTION_EX":
            ops.append("call")
            break
        elif ins.opname in ("RETURN_VALUE", "RETURN_CONST"):
            break
    return ops


def tty_lock_sites():
    """every code object of utils.py that touches the global `_tty_lock`, with what it does to it"""
    sites = []

    def walk(code):
        if "_tty_lock" in code.co_names:
            ops = []
            ins = list(dis.get_instructions(code))
            for i, x in enumerate(ins):
                if x.argval != "_tty_lock":
                    continue
                if x.opname == "LOAD_GLOBAL" or x.opname == "LOAD_NAME":
                    nxt = ins[i + 1].opname if i + 1 < len(ins) else ""
                    ops.append("load+enter" if nxt == "BEFORE_WITH" else "load")
                elif x.opname in ("STORE_GLOBAL", "STORE_NAME"):
                    ops.append("store")
            if ops:
                sites.append((code.co_name, " ".join(ops)))
        for c in code.co_consts:
            if isinstance(c, types.CodeType):
                walk(c)

    walk(UTILS_CODE)
    return sorted(sites)


def module_init_order():
    """source order of: the binding of `_tty_lock`, the evaluation of `_rlock_type`, the import-time
    adoption call — read from the AST of utils.py"""
    import ast
    tree = ast.parse(open(UTILS_FILE).read())
    out = []

    def visit(stmts):
        for st in stmts:
            if isinstance(st, ast.Assign):
                names = [t.id for t in st.targets if isinstance(t, ast.Name)]
                if "_tty_lock" in names:
                    out.append("_tty_lock = " + ast.unparse(st.value))
                if "_rlock_type" in names:
                    out.append("_rlock_type = " + ast.unparse(st.value))
            elif isinstance(st, ast.Expr) and isinstance(st.value, ast.Call) \
                    and getattr(st.value.func, "id", None) == "_adopt_process_locks":
                out.append("adopt " + ast.unparse(st.value.args[0]) if st.value.args else "adopt")
            elif isinstance(st, (ast.If, ast.For, ast.While, ast.With, ast.Try)):
                for field in ("body", "orelse", "finalbody"):
                    visit(getattr(st, field, []) or [])
                for h in getattr(st, "handlers", []) or []:
                    visit(h.body)

    visit(tree.body)
    return out


def lock_aliases():
    """every place of the package (other than utils.py itself) that binds the lock OBJECT by name:
    `from ..utils import _tty_lock` (any scope), or a module attribute that is the lock object"""
    import pkgutil
    import term_image
    found = set()
    for info in pkgutil.walk_packages(term_image.__path__, "term_image."):
        spec = info.module_finder.find_spec(info.name)
        path = getattr(spec, "origin", None)
        if not path or not path.endswith(".py") or path == UTILS_FILE:
            continue
        try:
            code = compile(open(path).read(), path, "exec")
        except Exception:  # noqa: BLE001
            continue

        def walk(c):
            for ins in dis.get_instructions(c):
                if ins.opname == "IMPORT_FROM" and ins.argval in ("_tty_lock", "_cell_size_lock"):
                    found.add(f"{info.name}:{c.co_name}: from-import {ins.argval}")
            for k in c.co_consts:
                if isinstance(k, types.CodeType):
                    walk(k)

        walk(code)
    for name, m in list(sys.modules.items()):
        if name.startswith("term_image") and m is not None and m is not U0:
            for k, v in list(vars(m).items()):
                if v is U0._tty_lock:
                    found.add(f"{name}.{k}: is the lock object")
    return sorted(found)


def at_fork_sites():
    """every place of the package that registers an at-fork hook (`os.register_at_fork`,
    `multiprocessing.util.register_after_fork`)"""
    import pkgutil
    import term_image
    found = []
    paths = [UTILS_FILE]
    for info in pkgutil.walk_packages(term_image.__path__, "term_image."):
        spec = info.module_finder.find_spec(info.name)
        path = getattr(spec, "origin", None)
        if path and path.endswith(".py") and path not in paths:
            paths.append(path)
    for path in paths:
        try:
            code = compile(open(path).read(), path, "exec")
        except Exception:  # noqa: BLE001
            continue

        def walk(c):
            for nm in c.co_names:
                if nm in ("register_at_fork", "register_after_fork"):
                    found.append(f"{os.path.basename(path)}:{c.co_name}: {nm}")
            for k in c.co_consts:
                if isinstance(k, types.CodeType):
                    walk(k)

        walk(code)
    return sorted(set(found))


def start_call_context():
    """where `_process_start_wrapper` calls the original start (`….__wrapped__(self, …)`): the
    compound statements lexically enclosing each such call (expected: none — in particular no `with`:
    the original start, i.e. possibly os.fork(), runs while the thread holds no terminal lock; no
    `if`/`try` either: one call, on every path, whose failure is not handled)"""
    import ast
    tree = ast.parse(open(UTILS_FILE).read())
    out = []
    for fn in ast.walk(tree):
        if isinstance(fn, ast.FunctionDef) and fn.name == "_process_start_wrapper":
            def visit(node, ctx):
                for ch in ast.iter_child_nodes(node):
                    c2 = ctx
                    if isinstance(ch, (ast.With, ast.If, ast.Try, ast.For, ast.While)):
                        c2 = ctx + [type(ch).__name__.lower()]
                    if isinstance(ch, ast.Call) and isinstance(ch.func, ast.Attribute) and ch.func.attr == "__wrapped__":
                        out.append("/".join(ctx) if ctx else "<top>")
                    visit(ch, c2)
            visit(fn, [])
    return out


def screen_sync_methods():
    """methods of `UrwidImageScreen` decorated with `@lock_tty` (AST of widget/_urwid.py)"""
    import ast
    import term_image.widget._urwid as W0
    tree = ast.parse(open(W0.__file__).read())
    out = []
    for cls in ast.walk(tree):
        if isinstance(cls, ast.ClassDef) and cls.name == "UrwidImageScreen":
            for fn in cls.body:
                if isinstance(fn, ast.FunctionDef) and any(
                        (isinstance(d, ast.Name) and d.id == "lock_tty") or
                        (isinstance(d, ast.Attribute) and d.attr == "lock_tty") for d in fn.decorator_list):
                    out.append(fn.name)
    return sorted(out)


def facts():
    probe = U0.lock_tty(lambda: None)
    sync_ops = wrapper_ops(probe.__code__)
    start_ops = wrapper_ops(U0._process_start_wrapper.__code__, stop_at="_cell_size_lock")
    wrapped = "none"
    wrapped_methods = []
    for cls, nm in ((mpp.BaseProcess, "multiprocessing.process.BaseProcess"), (mpc.Process, "multiprocessing.context.Process")):
        if cls.__dict__.get("start") is U0._process_start_wrapper and wrapped == "none":
            wrapped = nm
        for attr, v in cls.__dict__.items():
            for key, val in vars(U0).items():
                if key.startswith("_process_") and v is val:
                    wrapped_methods.append(f"{nm}.{attr} <- {key}")
    adoption = []
    marker = object()
    for wn, tag in (("_process_bootstrap_wrapper", "bootstrap"), ("_process_run_wrapper", "run")):
        try:
            mod = raw_copy()
            if not hasattr(mod, wn):
                continue
            obj = types.SimpleNamespace(_tty_lock=marker, _cell_size_cache=None, _start_method=None)
            getattr(mod, wn).__wrapped__ = lambda self, *a, **k: None
            getattr(mod, wn)(obj)
            if mod._tty_lock is marker:
                adoption.append(tag)
        except Exception:  # noqa: BLE001
            pass
    atfork = [f"registered at import: {sorted(kw)}" for kw in raw_copy()._c14_atfork] + at_fork_sites()
    try:
        obj = types.SimpleNamespace(_tty_lock=marker, _cell_size_cache=None, name="x", _identity=(), _config={}, _parent_pid=None)
        mod = raw_copy(current=obj)
        if mod._tty_lock is marker:
            adoption.append("import")
    except Exception:  # noqa: BLE001
        pass
    users = []
    import importlib
    import inspect
    for mname in ("term_image.utils", "term_image.widget._urwid"):
        try:
            m = importlib.import_module(mname)
        except Exception:  # noqa: BLE001
            continue
        code = m.lock_tty(lambda: None).__code__

        def synced(f):
            for _ in range(6):
                if not inspect.isfunction(f):
                    return False
                if f.__code__ is code:
                    return True
                f = getattr(f, "__wrapped__", None)
            return False

        for name, obj in vars(m).items():
            if inspect.isfunction(obj) and synced(obj) and getattr(obj, "__module__", "") == mname:
                users.append(f"{mname}.{name}")
            elif inspect.isclass(obj) and obj.__module__ == mname:
                for k, v in vars(obj).items():
                    if synced(v):
                        users.append(f"{mname}.{obj.__name__}.{k}")
    return {"tty_fd": U0._tty_fd, "syncOps": sync_ops, "startOps": start_ops, "wrappedClass": wrapped,
            "childAdoption": adoption, "lockTtyUsers": sorted(users),
            "ttyLockSites": [f"{n}: {o}" for n, o in tty_lock_sites()],
            "moduleInitOrder": module_init_order(), "lockAliases": lock_aliases(),
            "wrappedMethods": sorted(wrapped_methods), "atForkHooks": atfork,
            "startCallContext": start_call_context(), "screenSyncMethods": screen_sync_methods()}


def _keeper():
    sys.settrace(tracer)
    threading.Event().wait()


def main():
    rfd, wfd = int(sys.argv[1]), int(sys.argv[2])
    inp = os.fdopen(rfd, "r")
    warm_up()
    # keep one tracing thread alive for the whole session: when the number of tracing threads
    # drops to zero CPython de-instruments every code object and re-instruments on the next
    # settrace, which costs tens of milliseconds per schedule
    keeper = threading.Thread(target=_keeper, daemon=True)
    keeper.start()
    out = os.fdopen(wfd, "w")
    for line in inp:
        req = json.loads(line)
        try:
            if req["op"] == "facts":
                resp = facts()
            elif req["op"] == "sched":
                sch = Sched(req["procs"], req.get("flav", {}), fns=req.get("fns"))
                res, viol, errs = sch.run(req["steps"])
                resp = {"res": res, "viol": viol, "errs": errs}
            elif req["op"] == "fsched":
                if not EXPECTED:
                    compute_expected()
                sch = Sched(req["procs"], {}, real=True, progs=req["progs"])
                res, viol, errs = sch.run(req["steps"], follow=True)
                resp = {"res": res, "viol": viol, "errs": errs, "used": sch.used}
            elif req["op"] == "fgen":
                import random as _r
                if not EXPECTED:
                    compute_expected()
                sch = Sched(req["procs"], {}, real=True, progs=req["progs"])
                toks, res, viol, errs = sch.generate(_r.Random(req["seed"]), req.get("maxsteps", 400))
                resp = {"steps": toks, "res": res, "viol": viol, "errs": errs, "expected": EXPECTED}
            elif req["op"] == "sgen":
                import random as _r
                sch = Sched(req["procs"], req.get("flav", {}), fns=req.get("fns"))
                toks, res, viol, errs = sch.generate(_r.Random(req["seed"]), req.get("maxsteps", 120), req.get("cfg", {}))
                resp = {"steps": toks, "res": res, "viol": viol, "errs": errs}
            elif req["op"] == "deco":
                resp = run_deco(req["ops"])
            elif req["op"] == "noop":
                resp = {}
            else:
                resp = {"error": "bad op"}
        except Hang:
            resp = {"hang": True}
        except Exception as e:  # noqa: BLE001
            import traceback
            resp = {"error": traceback.format_exc()[-1500:]}
        out.write(json.dumps(resp) + "\n")
        out.flush()
        if resp.get("hang"):
            os._exit(3)


if __name__ == "__main__":
    main()
