#!/venv/bin/python
"""C20 — style settings resolve instance -> nearest class -> default, and unset restores
(DESIGN.md §5 C20).

One correspondence case = one *history*: class creations (`type(name, (Parent,), {})` over the
library's style classes), instance creations, set / unset / get of the four inheritable settings
and of the global native-animation limit on classes and instances, renders with and without a
per-call method override, and full dumps.  The Lean driver replays the same history on the
model of the code (`run`) or on the specification machine (`spec`); the real code's answers
must be identical, operation by operation.

The oracle is independent of Lean: it keeps, per (setting, class/instance), *what the history
last did there* (set v / unset) and demands after every operation that every class and every
instance reports "own value, else nearest ancestor's, else the documented default", that a
rejected operation changed nothing, that instance-level writes of class-only settings raise,
that a render used the override or the effective method, and that the native-animation limit
is the same everywhere.
"""
from __future__ import annotations

import base64
import inspect
import os
import random
import sys
import tempfile

sys.path.insert(0, os.path.dirname(os.path.abspath(__file__)))
from common import framework as fw  # noqa: E402
from common.framework import Case, Failure, Property  # noqa: E402
from common import env  # noqa: E402,F401

from PIL import Image  # noqa: E402
import term_image.image as TI  # noqa: E402
from term_image.image import common as TC  # noqa: E402
from term_image.image import iterm2 as T2  # noqa: E402

SLOT_ATTR = {"rm": "_render_method", "fs": "_forced_support", "jq": "_jpeg_quality", "rf": "_read_from_file"}
SETTINGS = ("fs", "rm", "jq", "rf", "na")
EXC = (TypeError, ValueError, AttributeError)


# --------------------------------------------------------------------------------------
# the library's class tree, read from the live package


def lib_classes():
    """BaseImage and every class of the package below it, parents first (BFS, children by name)."""
    out, todo = [], [TC.BaseImage]
    while todo:
        c = todo.pop(0)
        out.append(c)
        kids = [k for k in c.__subclasses__() if k.__module__.startswith("term_image.")]
        todo += sorted(kids, key=lambda k: k.__name__)
    return out


LIB = lib_classes()
_PRISTINE = {c: {a: vars(c)[a] for a in SLOT_ATTR.values() if a in vars(c)} for c in LIB}
_PRISTINE_NA = T2.ITerm2ImageMeta._native_anim_max_bytes


def restore_library():
    for c, own in _PRISTINE.items():
        for a in SLOT_ATTR.values():
            if a in own:
                type.__setattr__(c, a, own[a])
            elif a in vars(c):
                type.__delattr__(c, a)
    T2.ITerm2ImageMeta._native_anim_max_bytes = _PRISTINE_NA


def lean_str(s):
    return '"' + s.replace("\\", "\\\\").replace('"', '\\"') + '"'


def lean_opt(v, f=str):
    return "none" if v is None else f"some ({f(v)})"


def lean_bool(b):
    return "true" if b else "false"


# --------------------------------------------------------------------------------------
# values on the wire


def enc(v) -> str:
    if v is None:
        return "N"
    if type(v) is bool:
        return "b1" if v else "b0"
    if type(v) is int:
        return f"i{v}"
    if type(v) is str:
        return "s" + (v.encode().hex() or "-")
    return "o"


def dec(t: str):
    if t == "N":
        return None
    if t in ("b0", "b1"):
        return t == "b1"
    if t == "o":
        return 1.5
    if t[0] == "i":
        return int(t[1:])
    if t[0] == "s":
        return "" if t[1:] == "-" else bytes.fromhex(t[1:]).decode()
    raise ValueError(t)


def S(x: str) -> str:
    return enc(x)


# --------------------------------------------------------------------------------------
# running a history on the real code

_TMP = tempfile.mkdtemp(prefix="c20-")
__import__("atexit").register(__import__("shutil").rmtree, _TMP, ignore_errors=True)  # scratch images of this run
_GIF = os.path.join(_TMP, "a.gif")
Image.new("RGB", (4, 8), (200, 10, 10)).save(
    _GIF, save_all=True, append_images=[Image.new("RGB", (4, 8), (10, 200, 10))], duration=100, loop=0)
_STILL = Image.new("RGB", (4, 8), (10, 20, 200))


N_FRAMES = 2
PROTO_LOOPS = 3  # loops of the cached entry points `iterc` / `animc` (TIV.C20.protoLoops)
RESIZED_WIDTH = 4  # `set_size(width=…)` after the first loop (rendered height 2 -> 4)


def make_instance(cls, animated=True):
    """an instance over the two-frame GIF file (animated) or over a still PIL image"""
    if animated:
        return cls.from_file(_GIF, width=2)
    return cls(_STILL, width=2)


def classify_render(inst, out: str, h=None) -> str:
    """Which render method produced `out` (from its framing only); `h` = height the frame was rendered at."""
    h = inst.rendered_height if h is None else h
    if h < 2:
        return "?height"
    if not isinstance(type(inst), T2.ITerm2ImageMeta) and "\x1b_G" in out:
        n = out.count("a=T")
        return "lines" if n == h else "whole" if n == 1 else f"?{n}"
    if isinstance(type(inst), T2.ITerm2ImageMeta):
        n = out.count("\x1b]1337;File=")
        if n == h:
            return "lines"
        if n != 1:
            return f"?{n}"
        payload = out.split("\x1b]1337;File=", 1)[1].split(":", 1)[1].split("\x1b\\")[0].split("\x07")[0]
        head = base64.b64decode(payload[:16])
        return "anim" if head.startswith(b"GIF8") else "whole"
    return "?style"


def classify_stream(inst, out: str) -> str:
    """Which render method produced the frames of one loop of a `draw()` animation."""
    h = inst.rendered_height
    iterm = isinstance(type(inst), T2.ITerm2ImageMeta)
    n = out.count("\x1b]1337;File=") if iterm else out.count("a=T")
    if n == h * N_FRAMES:
        return "lines"
    if n == N_FRAMES:
        if iterm:
            for part in out.split("\x1b]1337;File=")[1:]:
                if base64.b64decode(part.split(":", 1)[1][:16]).startswith(b"GIF8"):
                    return "?gif-frame"  # a natively animated payload among the frames
        return "whole"
    if n == 1 and iterm:
        return classify_render(inst, out)
    return f"?{n}"


LETTER = {"lines": "L", "whole": "W", "anim": "A"}


def _no_sleep(_):
    return None


def render(inst, override, entry="static"):
    """render `inst` through one entry point; the method used is read off the emitted bytes"""
    import contextlib
    import io
    import time

    if entry == "static":
        args = {} if override is None else type(inst)._check_style_args({"method": override})
        return classify_render(inst, inst._renderer(inst._render_image, TC._ALPHA_THRESHOLD, **args))
    if entry == "str":
        if override is not None:
            raise LookupError("out of model")
        return classify_render(inst, str(inst))
    if entry in ("fmt", "iter", "iterc"):
        if entry != "fmt" and not inst.is_animated:
            TI.ImageIterator(inst, 1, "1.1")  # raises ValueError
            return "?not-raised"
        if override is None:
            spec = "1.1"
        elif isinstance(override, str) and override.lower() in getattr(type(inst), "_render_methods", ()) :
            spec = "1.1+" + LETTER[override.lower()]
        else:
            raise LookupError("out of model")
        if entry == "fmt":
            return classify_render(inst, format(inst, spec))
        if entry == "iterc":
            # cached, three loops, the image is resized after the first loop: frames of the later loops
            # are rendered anew (stale size hash) and must still carry the per-call method
            it = TI.ImageIterator(inst, PROTO_LOOPS, spec, cached=True)
            kinds = []
            try:
                h = inst.rendered_height
                for _ in range(N_FRAMES):
                    kinds.append(classify_render(inst, next(it), h))
                inst.set_size(width=RESIZED_WIDTH)
                h = inst.rendered_height
                for frame in it:
                    kinds.append(classify_render(inst, frame, h))
            finally:
                it.close()
                inst.set_size(width=2)
            if len(kinds) != N_FRAMES * PROTO_LOOPS:
                return f"?frames:{len(kinds)}"
            kinds = set(kinds)
            return kinds.pop() if len(kinds) == 1 else "?mixed:" + "+".join(sorted(kinds))
        it = TI.ImageIterator(inst, 1, spec)
        try:
            kinds = {classify_render(inst, frame) for frame in it}
        finally:
            it.close()
        return kinds.pop() if len(kinds) == 1 else "?mixed:" + "+".join(sorted(kinds))
    style = {} if override is None else {"method": override}
    out = io.StringIO()
    real_sleep = time.sleep
    time.sleep = _no_sleep
    h0 = inst.rendered_height
    try:
        with contextlib.redirect_stdout(out):
            if entry == "draw":
                inst.draw("left", 0, "top", 1, animate=False, **style)
            elif entry == "anim":
                inst.draw("left", 0, "top", 1, repeat=1, **style)
            elif entry == "animc":
                # cached animation over three loops; the image is resized while the last frame of the
                # first loop is on display (the first "sleep"), i.e. before the first cached frame is due
                calls = []

                def resize_once(_):
                    if not calls:
                        inst.set_size(width=RESIZED_WIDTH)
                    calls.append(1)

                time.sleep = resize_once
                try:
                    inst.draw("left", 0, "top", 1, repeat=PROTO_LOOPS, cached=True, **style)
                    h1 = inst.rendered_height
                finally:
                    inst.set_size(width=2)
            else:
                raise LookupError("out of model")
    finally:
        time.sleep = real_sleep
    if entry == "animc" and inst.is_animated:
        chunks = out.getvalue().split("\r")
        if len(chunks) != N_FRAMES * PROTO_LOOPS:
            return f"?frames:{len(chunks)}"
        kinds = {classify_render(inst, c, h0 if k < N_FRAMES else h1) for k, c in enumerate(chunks)}
        return kinds.pop() if len(kinds) == 1 else "?mixed:" + "+".join(sorted(kinds))
    if entry == "anim" and inst.is_animated:
        return classify_stream(inst, out.getvalue())
    return classify_render(inst, out.getvalue())


class World:
    """the real classes and instances of one history"""

    def __init__(self):
        self.classes = list(LIB)
        self.insts = []
        self.parent = {i: (LIB.index(c.__bases__[0]) if c.__bases__[0] in LIB else None) for i, c in enumerate(LIB)}
        self.own_default = {}
        self.fam = {i: ("iterm2" if c is TI.ITerm2Image else "kitty" if c is TI.KittyImage else None) for i, c in enumerate(LIB)}
        self.inst_cls = []  # class id of every instance
        self.inst_anim = []  # is the instance's source animated
        self.names = [c.__name__ for c in LIB]

    def shadow(self):
        """what the oracle needs, without keeping the classes alive"""
        return Shadow(dict(self.parent), dict(self.own_default), dict(self.fam), list(self.inst_cls), list(self.names),
                      list(self.inst_anim))

    def target(self, t):
        return self.classes[int(t[1:])] if t[0] == "c" else self.insts[int(t[1:])]

    def is_iterm(self, obj):
        cls = obj if isinstance(obj, type) else type(obj)
        return isinstance(cls, T2.ITerm2ImageMeta)  # incl. user metaclasses derived from it

    def get(self, k, obj):
        if k == "rm":
            return obj._render_method
        if k == "fs":
            return obj.forced_support
        if not self.is_iterm(obj):
            raise LookupError("out of model")
        return getattr(obj, {"jq": "jpeg_quality", "rf": "read_from_file", "na": "native_anim_max_bytes"}[k])

    def entry(self, k, obj):
        try:
            return enc(self.get(k, obj))
        except LookupError:
            return "!OutOfModel"
        except EXC as e:
            return "!" + type(e).__name__

    def snapshot(self):
        """(rows of the classes, rows of the instances)"""
        return ([[self.entry(k, o) for k in SETTINGS] for o in self.classes],
                [[self.entry(k, o) for k in SETTINGS] for o in self.insts])

    def do(self, op: str) -> str:
        f = op.split(",")
        if f[0] == "nc":
            p = self.classes[int(f[1])]
            body = {}
            if f[2] != "-":
                d = dec(f[2])
                body = {"_default_render_method": d, "_render_method": d}
                self.own_default[len(self.classes)] = d
            self.parent[len(self.classes)] = int(f[1])
            self.fam[len(self.classes)] = self.fam[int(f[1])]
            self.names.append(f"U{len(self.classes)}")
            # `nc,<p>,<d>,m`: `class M(type(Parent)): pass; class U(Parent, metaclass=M): ...`
            meta = type(f"M{len(self.classes)}", (type(p),), {}) if len(f) > 3 else type(p)
            self.classes.append(meta(f"U{len(self.classes)}", (p,), body))
            return f"c{len(self.classes) - 1}"
        if f[0] == "ni":
            cls = self.classes[int(f[1])]
            if inspect.isabstract(cls):
                return "!OutOfModel"  # instantiating an abstract style class is not part of the property
            self.insts.append(make_instance(cls, animated=len(f) < 3))
            self.inst_cls.append(int(f[1]))
            self.inst_anim.append(len(f) < 3)
            return f"i{len(self.insts) - 1}"
        if f[0] == "dump":
            cr, ir = self.snapshot()
            return ";".join(",".join(r) for r in cr + ir)
        if f[0] == "rend":
            inst = self.insts[int(f[1])]
            try:
                return "m:" + render(inst, dec(f[2]), f[3] if len(f) > 3 else "static")
            except LookupError:
                return "!OutOfModel"
            except EXC as e:
                return "!" + type(e).__name__
        k, obj = f[1], self.target(f[2])
        if f[0] == "get":
            return self.entry(k, obj)
        if k in ("jq", "rf", "na") and not self.is_iterm(obj):
            return "!OutOfModel"
        name = {"fs": "forced_support", "jq": "jpeg_quality", "rf": "read_from_file", "na": "native_anim_max_bytes"}.get(k)
        try:
            if f[0] == "set":
                v = dec(f[3])
                if k == "rm":
                    obj.set_render_method(v)
                else:
                    setattr(obj, name, v)
            elif f[0] == "del":
                if k == "rm":
                    obj.set_render_method(None)
                else:
                    delattr(obj, name)
            else:
                return "harness-bad-op"
        except EXC as e:
            return "!" + type(e).__name__
        return "ok"


def execute(ops: list[str]):
    """-> (per-op results, per-op snapshots after the op, plain-data shadow of the world)"""
    restore_library()
    w = World()
    res, snaps = [], []
    try:
        for op in ops:
            try:
                res.append(w.do(op))
            except Exception as e:  # anything unexpected is a result, not a crash
                res.append(f"!{type(e).__name__}")
            snaps.append(w.snapshot())
    finally:
        restore_library()
    return res, snaps, w.shadow()


# --------------------------------------------------------------------------------------
# the oracle's own statement of the property

DOC_DEFAULT = {"jq": None, "rf": True, "fs": False}  # jq: "disabled" = any negative value
METHODS = {"kitty": {"lines", "whole"}, "iterm2": {"lines", "whole", "anim"}}


class Shadow:
    def __init__(self, parent, own_default, fam, inst_cls, names, inst_anim):
        self.parent, self.own_default, self.fam, self.inst_cls, self.names = parent, own_default, fam, inst_cls, names
        self.inst_anim = inst_anim


class Spec:
    def __init__(self, w: Shadow):
        self.w = w
        self.ov = {}  # (setting, 'c'/'i', index) -> value last set and not unset since
        self.na = None

    def family(self, ci):
        return self.w.fam[ci]

    def chain(self, ci):
        while ci is not None:
            yield ci
            ci = self.w.parent[ci]

    def eff_cls(self, k, ci):
        """own value if set, else the nearest ancestor's, else the documented default"""
        for a in self.chain(ci):
            if (k, "c", a) in self.ov:
                return ("val", self.ov[(k, "c", a)])
            if k == "rm" and a in self.w.own_default:
                return ("val", self.w.own_default[a])
            if k == "rm" and a < len(LIB) and LIB[a] in (TI.KittyImage, TI.ITerm2Image):
                return ("val", "lines")
        if k == "rm":
            return ("val", None)
        if k == "jq":
            return ("neg",)
        return ("val", DOC_DEFAULT[k])

    def eff(self, k, kind, idx):
        if kind == "i":
            if (k, "i", idx) in self.ov:
                return ("val", self.ov[(k, "i", idx)])
            return self.eff_cls(k, self.w.inst_cls[idx])
        return self.eff_cls(k, idx)

    @staticmethod
    def agrees(exp, got: str, lower=False) -> bool:
        if got.startswith("!"):
            return False
        v = dec(got)
        if exp[0] == "neg":
            return type(v) is int and v < 0
        e = exp[1]
        if lower and isinstance(e, str) and isinstance(v, str):
            return e.lower() == v.lower()
        return type(e) is type(v) and e == v


def verdict_valid(k, v, family):
    """True = documented as valid, False = documented as invalid, None = not demanded."""
    if k in ("fs", "rf"):
        return type(v) is bool
    if k == "jq":
        if type(v) is int:
            return v <= 95
        return None if type(v) is bool else False
    if k == "na":
        if type(v) is int:
            return v > 0
        return None if type(v) is bool else False
    if k == "rm":
        if v is None:
            return True
        if not isinstance(v, str):
            return False
        if family is None:
            return False
        return v.lower() in METHODS[family]
    return None


def check_history(ops, res, snaps, w: Shadow):
    """-> None or (key, what, index of the failing op)"""
    sp = Spec(w)
    n_lib = len(LIB)
    ncls, ninst = n_lib, 0
    prev = None

    def unchanged(prev, snap):
        return prev is None or (snap[0][: len(prev[0])] == prev[0] and snap[1][: len(prev[1])] == prev[1])

    for n, (op, r, snap) in enumerate(zip(ops, res, snaps)):
        f = op.split(",")
        where = f"op {n} `{op}`"
        if f[0] == "nc":
            ncls += 1
        elif f[0] == "ni" and r.startswith("i"):
            ninst += 1
        elif f[0] in ("set", "del"):
            k, t = f[1], f[2]
            kind, idx = t[0], int(t[1:])
            level = "class" if kind == "c" else "inst"
            ci = idx if kind == "c" else sp.w.inst_cls[idx]
            fam = sp.family(ci)
            what = "set" if f[0] == "set" and not (k == "rm" and f[3] == "N") else "unset"
            if r == "!OutOfModel":
                continue
            if r.startswith("!"):
                if not unchanged(prev, snap):
                    return (f"reject-pure/{k}/{level}-{what}", f"{where} raised {r[1:]} but changed what is reported", n)
                if k in ("fs", "na") and kind == "i":
                    if r != "!AttributeError":
                        return (f"instance-readonly/{k}", f"{where} raised {r[1:]}, not AttributeError", n)
                elif f[0] == "set" and verdict_valid(k, dec(f[3]), fam) is True:
                    return (f"rejected-valid/{k}/{level}", f"{where} rejected a documented-valid value ({r[1:]})", n)
                elif f[0] == "del" and k != "fs":
                    return (f"rejected-valid/{k}/{level}-unset", f"{where}: unset raised {r[1:]}", n)
            else:
                if k in ("fs", "na") and kind == "i":
                    return (f"instance-readonly/{k}", f"{where}: instance-level write accepted", n)
                if f[0] == "set" and verdict_valid(k, dec(f[3]), fam) is False:
                    return (f"accepted-invalid/{k}/{level}", f"{where}: invalid value accepted", n)
                if k == "na":
                    sp.na = dec(f[3]) if f[0] == "set" else None
                elif what == "set":
                    sp.ov[(k, kind, idx)] = dec(f[3])
                else:
                    sp.ov.pop((k, kind, idx), None)
            # every class and instance must report nearest-override-else-default
            last = f"{level}-{what}" + ("-rejected" if r.startswith("!") else "")
            for j, row in enumerate(snap[0] + snap[1]):
                okind, oidx = ("c", j) if j < len(snap[0]) else ("i", j - len(snap[0]))
                for kk, got in zip(SETTINGS, row):
                    if got == "!OutOfModel":
                        continue
                    if kk == "na":
                        exp = ("val", sp.na if sp.na is not None else _PRISTINE_NA)
                        if not Spec.agrees(exp, got):
                            return ("global-shared/na", f"after {where}: {'class' if okind == 'c' else 'instance'} {oidx} reports "
                                    f"native_anim_max_bytes={got}, expected {enc(exp[1])}", n)
                        continue
                    kq = kk if okind == "c" or kk != "fs" else "fs"
                    exp = sp.eff(kq, okind, oidx) if not (kk == "fs" and okind == "i") else \
                        sp.eff_cls("fs", sp.w.inst_cls[oidx])
                    if not Spec.agrees(exp, got, lower=(kk == "rm")):
                        who = f"class {oidx} ({sp.w.names[oidx]})" if okind == "c" else f"instance {oidx}"
                        return (f"resolve/{kk}/after-{last}/{'class' if okind == 'c' else 'inst'}",
                                f"after {where}: {who} reports {kk}={got}, nearest-override rule gives "
                                f"{'a negative value' if exp[0] == 'neg' else enc(exp[1])}", n)
        elif f[0] == "rend" and not r.startswith("!OutOfModel"):
            i = int(f[1])
            ov = dec(f[2])
            entry = f[3] if len(f) > 3 else "static"
            fam = sp.family(sp.w.inst_cls[i])
            animated = sp.w.inst_anim[i]
            if entry in ("iter", "iterc") and not animated:
                if r != "!ValueError":
                    return ("render/iterator-over-still-image", f"{where}: ImageIterator over a non-animated image gave {r}", n)
            elif fam is not None:
                if ov is not None and verdict_valid("rm", ov, fam) is False:
                    if not r.startswith("!"):
                        return ("render/override-invalid-accepted", f"{where}: invalid per-call method rendered {r}", n)
                else:
                    resolved = ov.lower() if ov is not None else sp.eff("rm", "i", i)[1]
                    resolved = resolved.lower() if isinstance(resolved, str) else resolved
                    # documented: ANIM -> WHOLE for the separate frames of an animation / iterator and
                    # for non-animated images
                    frames = entry in ("iter", "iterc") or (entry in ("anim", "animc") and animated)
                    exp = "whole" if resolved == "anim" and (frames or not animated) else resolved
                    if r != f"m:{exp}":
                        return (f"render/uses-effective/{entry}/{'with' if ov is not None else 'without'}-override",
                                f"{where}: the bytes emitted through entry point `{entry}` show {r}; the "
                                f"{'per-call override' if ov is not None else 'effective method of the instance'} is "
                                f"{resolved}" + (" (-> whole for separate frames / still images)" if exp != resolved else ""), n)
        if f[0] not in ("set", "del") and not unchanged(prev, snap):
            return (f"observer-changed-state/{f[0]}", f"{where} changed what is reported", n)
        prev = snap
    return None


# --------------------------------------------------------------------------------------
# generator

ENTRIES = ["static", "str", "fmt", "draw", "anim", "iter", "iterc", "iterc", "animc", "animc"]
CASINGS = [str.lower, str.upper, str.title, lambda s: s[0] + s[1:].upper(), str.lower]
BAD_RM = ["foo", "", "line", "lines ", "wholK", "İnes", "LINES\n"]


class Gen:
    def __init__(self, rng: random.Random):
        self.rng = rng
        self.n_lib = len(LIB)
        self.kitty = LIB.index(TI.KittyImage)
        self.iterm = LIB.index(TI.ITerm2Image)

    def fam_of(self, ci, parent):
        while ci is not None:
            if ci == self.kitty:
                return "kitty"
            if ci == self.iterm:
                return "iterm2"
            ci = parent[ci]
        return None

    def value(self, k, fam, valid_p=0.8):
        rng = self.rng
        if rng.random() < valid_p:
            if k in ("fs", "rf"):
                return enc(rng.choice([True, False]))
            if k == "jq":
                return enc(rng.choice([-5, -1, 0, 1, 50, 94, 95, rng.randrange(-3, 96)]))
            if k == "na":
                return enc(rng.choice([1, 2, 4096, 2 * 2**20, 2**40, rng.randrange(1, 10**6)]))
            names = sorted(METHODS[fam]) if fam else ["lines"]
            return enc(rng.choice(CASINGS)(rng.choice(names)))
        if k in ("fs", "rf"):
            return rng.choice(["N", "i0", "i1", S("true"), "o"])
        if k == "jq":
            return rng.choice(["i96", "i100", "i1000", "N", "o", S("50"), "b1", "b0"])
        if k == "na":
            return rng.choice(["i0", "i-1", "i-4096", "N", "o", S("1"), "b0", "b1"])
        bad = [S(x) for x in BAD_RM] + ["i1", "b1", "b0", "o"]
        if fam == "kitty":
            bad += [S("anim"), S("ANIM")]
        return rng.choice(bad)

    def history(self, focus=None):
        rng = self.rng
        parent = {}
        for i, c in enumerate(LIB):
            parent[i] = LIB.index(c.__bases__[0]) if c.__bases__[0] in LIB else None
        ncls = self.n_lib
        inst_cls = []
        ops = []
        root = rng.choice([self.kitty, self.iterm, self.iterm, None]) if focus is None else focus
        pool = [root] if root is not None else list(range(self.n_lib))
        concrete = {i for i, c in enumerate(LIB) if not inspect.isabstract(c)}
        own_default = set()
        shape_flags = set()

        def new_class():
            nonlocal ncls
            p = rng.choice(pool[-3:]) if rng.random() < 0.5 else rng.choice(pool)
            fam = self.fam_of(p, parent)
            d = "-"
            if fam and rng.random() < 0.12:
                d = S(rng.choice(sorted(METHODS[fam])))
                own_default.add(ncls)
                shape_flags.add("own-default")
            derived = rng.random() < 0.15
            if derived:
                shape_flags.add("derived-metaclass")
            ops.append(f"nc,{p},{d}" + (",m" if derived else ""))
            parent[ncls] = p
            if p in concrete:
                concrete.add(ncls)
            pool.append(ncls)
            ncls += 1

        def new_inst():
            cands = [c for c in pool if c in concrete]
            if cands:
                c = rng.choice(cands)
                ops.append(f"ni,{c}" if rng.random() < 0.75 else f"ni,{c},s")
                inst_cls.append(c)

        for _ in range(rng.choice([1, 2, 3, 4, 6, 8])):
            new_class()
        for _ in range(rng.choice([0, 1, 2, 3])):
            new_inst()
        set_at = set()  # (k, target) currently holding an override (as far as the generator knows)
        if root is not None and rng.random() < 0.3:
            # the style's own class holds a non-default class-wide method while nearer levels change
            ops.append(f"set,rm,c{root},{enc(rng.choice(CASINGS)(rng.choice(sorted(METHODS[self.fam_of(root, parent)]))))}")
            set_at.add(("rm", f"c{root}"))
        n_ops = rng.choice([6, 10, 16, 24, 36])
        settings = ["rm", "rm", "rm", "fs", "jq", "rf", "na"] if root != self.kitty else ["rm", "rm", "fs"]
        if root is None:
            settings = ["fs", "fs", "rm", "jq", "rf", "na"]
        hot = rng.choice(settings)  # histories concentrate on one setting so that overrides interact
        for _ in range(n_ops):
            x = rng.random()
            k = hot if rng.random() < 0.7 else rng.choice(settings)
            targets = [f"c{c}" for c in pool] + [f"i{i}" for i in range(len(inst_cls))]
            if k in ("jq", "rf", "na"):
                targets = [t for t in targets
                           if self.fam_of(int(t[1:]) if t[0] == "c" else inst_cls[int(t[1:])], parent) == "iterm2"]
            if x < 0.06:
                new_class()
                continue
            if x < 0.10:
                new_inst()
                continue
            if not targets:
                continue
            t = rng.choice(targets)
            ci = int(t[1:]) if t[0] == "c" else inst_cls[int(t[1:])]
            fam = self.fam_of(ci, parent)
            if x < 0.45:
                v = self.value(k, fam)
                ops.append(f"set,{k},{t},{v}")
                set_at.add((k, t))
            elif x < 0.65:
                # unset, preferably where something is set and an ancestor holds an override too
                mine = [tt for (kk, tt) in set_at if kk == k]
                if mine and rng.random() < 0.8:
                    t = rng.choice(mine)
                    set_at.discard((k, t))
                    if t[0] == "c":
                        a = parent[int(t[1:])]
                        while a is not None:
                            if (k, f"c{a}") in set_at:
                                shape_flags.add("unset-under-override")
                            a = parent[a]
                ops.append(f"set,rm,{t},N" if k == "rm" and rng.random() < 0.8 else f"del,{k},{t}")
            elif x < 0.80:
                ops.append(f"get,{k},{t}")
            elif x < 0.90 and inst_cls:
                cand = [i for i, c in enumerate(inst_cls) if self.fam_of(c, parent)]
                if cand:
                    i = rng.choice(cand)
                    fam = self.fam_of(inst_cls[i], parent)
                    entry = rng.choice(ENTRIES)
                    if entry == "str" or rng.random() < 0.5:
                        ov = "N"
                    elif entry in ("fmt", "iter", "iterc"):
                        ov = enc(rng.choice(CASINGS)(rng.choice(sorted(METHODS[fam]))))
                    else:
                        ov = self.value("rm", fam, 0.75)
                    ops.append(f"rend,{i},{ov},{entry}")
            else:
                ops.append("dump")
        for i, c in enumerate(inst_cls):  # what every instance ends up rendering with
            if self.fam_of(c, parent) and rng.random() < 0.5:
                ops.append(f"rend,{i},N,{rng.choice(ENTRIES)}")
        ops.append("dump")
        tag = {self.kitty: "kitty", self.iterm: "iterm2", None: "whole-tree"}[root]
        kind = tag + ("/" + "+".join(sorted(shape_flags)) if shape_flags else "/plain")
        return ops, kind


def targeted(n_lib, kitty, iterm):
    """small exhaustive family: a chain under each graphics style, `set a; set d; unset d` for every
    ancestor/descendant pair and setting, observed on classes and an instance"""
    out = []
    for root, fam in ((kitty, "kitty"), (iterm, "iterm2")):
        a, b, c = n_lib, n_lib + 1, n_lib + 2
        chain = [f"nc,{root},-", f"nc,{a},-", f"nc,{b},-", f"nc,{a},-", f"ni,{b}", f"ni,{c}"]
        ids = [root, a, b, c]
        vals = {"rm": (S("whole"), S("lines"), "N"), "fs": ("b1", "b0", None)}
        if fam == "iterm2":
            vals.update({"jq": ("i50", "i0", None), "rf": ("b0", "b1", None)})
        for k, (v1, v2, unset_v) in vals.items():
            for i, anc in enumerate(ids):
                for desc in ids[i + 1:]:
                    ops = list(chain) + [f"set,{k},c{anc},{v1}", "dump", f"set,{k},c{desc},{v2}", "dump"]
                    ops += [f"set,{k},c{desc},{unset_v}" if unset_v else f"del,{k},c{desc}", "dump"]
                    if k != "fs":
                        ops += [f"set,{k},i0,{v2}", f"rend,0,N", f"del,{k},i0" if k != "rm" else "set,rm,i0,N", "rend,0,N", "dump"]
                        ops += [f"del,{k},c{anc}" if k != "rm" else f"set,rm,c{anc},N", "dump", "rend,1,N"]
                    out.append((ops, f"targeted/{fam}/{k}"))
    return out


def entry_family(n_lib, kitty, iterm):
    """every render entry point x per-call override, on an animated and a still instance of B(A(root)),
    for every class-wide method of the style's own class x every nearer level (none / class A / the
    instances) holding every method"""
    out = []
    for root, fam in ((kitty, "kitty"), (iterm, "iterm2")):
        names = sorted(METHODS[fam])
        a, b = n_lib, n_lib + 1
        head = [f"nc,{root},-", f"nc,{a},-", f"ni,{b}", f"ni,{b},s"]
        for m1 in [None] + names:
            nearer = [None] + [(lvl, m2) for lvl in ("class", "inst") for m2 in names]
            for near in nearer:
                ops = list(head)
                if m1 is not None:
                    ops.append(f"set,rm,c{root},{S(m1.upper())}")
                if near is not None:
                    lvl, m2 = near
                    ops += [f"set,rm,c{a},{S(m2)}"] if lvl == "class" else [f"set,rm,i0,{S(m2)}", f"set,rm,i1,{S(m2.title())}"]
                for i in (0, 1):
                    for entry in ("static", "str", "fmt", "draw", "anim", "iter", "iterc", "animc"):
                        ops.append(f"rend,{i},N,{entry}")
                        if entry != "str":
                            ops += [f"rend,{i},{S(m)},{entry}" for m in names]
                ops.append("dump")
                out.append((ops, f"entries/{fam}/root-{m1 or 'unset'}/nearer-{'none' if near is None else near[0]}"))
    return out


def nam_family(n_lib, lib_index):
    """the global native-animation limit: set / reset through EVERY class of a tree that has a subclass
    with a derived metaclass (M), its plain descendant, a plain sibling and a derived metaclass further
    down; read through every class and instance after each (the dump).  The same tree under KittyImage
    (derived from ImageMeta) only checks that the four settings are untouched by the metaclass."""
    out = []
    iterm, kitty = lib_index
    a, b, c, d = n_lib, n_lib + 1, n_lib + 2, n_lib + 3
    head = [f"nc,{iterm},-,m", f"nc,{a},-", f"nc,{iterm},-", f"nc,{c},-,m", f"ni,{b}", f"ni,{c}", f"ni,{d},s", f"ni,{iterm}"]
    classes = [iterm, a, b, c, d]
    for setter in classes:
        for resetter in classes:
            ops = list(head) + ["dump", f"set,na,c{setter},i{4096 + setter}", "dump", f"get,na,c{iterm}", "get,na,i0",
                                f"set,na,c{resetter},i{7 + resetter}", "dump", f"del,na,c{resetter}", "dump",
                                f"set,na,c{setter},i0", "dump", f"set,na,i1,i5", f"del,na,i2", "dump"]
            out.append((ops, "global-limit/derived-metaclass"))
    head = [f"nc,{kitty},-,m", f"nc,{a},-", f"nc,{kitty},-", f"ni,{b}", f"ni,{c}"]
    for k, v1, v2 in (("rm", S("whole"), "N"), ("fs", "b1", "b0")):
        for x in (kitty, a, b, c):
            ops = list(head) + [f"set,{k},c{x},{v1}", "dump", f"set,{k},c{a},{v1}", "dump", f"set,{k},c{x},{v2}", "dump",
                                "rend,0,N,anim", "rend,1,N,iter"]
            out.append((ops, "derived-metaclass/kitty"))
    return out


def exhaustive(n_lib, root, k, depth):
    """every sequence of `depth` operations from {set v1, set v2, unset} x {root, A(root), B(A), instance of B}
    for one setting, each followed by a dump, with a render of the instance at the end"""
    import itertools
    a, b = n_lib, n_lib + 1
    head = [f"nc,{root},-", f"nc,{a},-", f"ni,{b}"]
    v1, v2 = {"rm": (S("whole"), S("LINES")), "jq": ("i50", "i0"), "rf": ("b0", "b1")}[k]
    alphabet = []
    for t in (f"c{root}", f"c{a}", f"c{b}", "i0"):
        alphabet += [f"set,{k},{t},{v1}", f"set,{k},{t},{v2}", f"set,rm,{t},N" if k == "rm" else f"del,{k},{t}"]
    for seq in itertools.product(alphabet, repeat=depth):
        ops = list(head)
        for o in seq:
            ops += [o, "dump"]
        yield ops + ["rend,0,N"], f"exhaustive/{k}/depth{depth}"


def is_nontrivial(ops):
    return sum(1 for o in ops if o.startswith(("set", "del"))) >= 3


# --------------------------------------------------------------------------------------


class C20(Property):
    id = "C20"
    title = "style settings resolve instance -> nearest class -> default, and unset restores"
    lean_props = ["TIV.C20.Props"]
    driver = "drv_c20"
    partial = ""
    assumptions = [
        "single inheritance among style classes (`__mro__` = class followed by its parent's `__mro__`)",
        "user subclasses do not define `_render_methods`, `_style_args`, `_jpeg_quality`, `_read_from_file`, "
        "`_forced_support` in their bodies; a body that defines `_default_render_method` also sets `_render_method` to it",
        "str.lower() agrees with ASCII lower-casing on membership in the generated method names",
    ]
    quick_cases = 4000
    thorough_cases = 70000
    rule = ("one case = one history (class/instance creations, set/unset/get/render/dump operations) derived from the "
            "PRNG state of VERIF_SEED; non-trivial when it holds at least three set/unset operations; distinct by the "
            "hash of its request line")

    def __init__(self):
        self._trace = {}
        self._ops_hist = {}

    # -- translator -------------------------------------------------------------------
    def gen_constants(self):
        rows = []
        for c in LIB:
            if len(c.__bases__) != 1:
                raise RuntimeError(f"{c.__name__} has {len(c.__bases__)} bases")
            own = _PRISTINE[c]
            v = vars(c)
            parent = LIB.index(c.__bases__[0]) if c.__bases__[0] in LIB else None
            methods = sorted(v["_render_methods"]) if "_render_methods" in v else None
            dflt = v.get("_default_render_method")
            if "_render_method" in own:
                rm = "some " + ("none" if own["_render_method"] is None else f"(some {lean_str(own['_render_method'])})")
            else:
                rm = "none"
            for a in ("_jpeg_quality", "_read_from_file"):
                if a in own:
                    raise RuntimeError(f"{c.__name__} defines {a} in its body")
            rows.append(
                f"  ({lean_str(c.__name__)}, {lean_opt(parent)}, "
                + ("none" if methods is None else "some [" + ", ".join(lean_str(m) for m in methods) + "]")
                + f", {lean_opt(dflt, lean_str)}, {rm}, {lean_opt(own.get('_forced_support'), lean_bool)}, "
                + f"{lean_bool(type(c) is T2.ITerm2ImageMeta)}, {lean_bool(inspect.isabstract(c))})")

        class Bare:
            pass

        meta = T2.ITerm2ImageMeta
        jq_default = meta.jpeg_quality.fget(Bare())
        rf_default = meta.read_from_file.fget(Bare())
        accepted = []
        for q in range(-300, 400):
            try:
                meta.jpeg_quality.fset(Bare(), q)
                accepted.append(q)
            except ValueError:
                pass
        if accepted != list(range(-300, accepted[-1] + 1)):
            raise RuntimeError("jpeg_quality: accepted values are not a down-set")
        fs_meta = vars(TC.ImageMeta)["_forced_support"]
        na = meta._ITerm2ImageMeta__native_anim_max_bytes
        body = (
            "/-! GENERATED by harness/c20.py from the imported package — do not edit -/\n"
            "namespace TIV.C20.Generated\n"
            "/-- (name, parent, own `_render_methods` (sorted), own `_default_render_method`, own `_render_method`,\n"
            "    own `_forced_support`, metaclass is ITerm2ImageMeta, abstract) — parents first -/\n"
            "def lib : List (String × Option Nat × Option (List String) × Option String × Option (Option String)\n"
            "    × Option Bool × Bool × Bool) := [\n" + ",\n".join(rows) + "]\n"
            f"def jqDefault : Int := {int(jq_default)}\n"
            f"def rfDefault : Bool := {lean_bool(rf_default)}\n"
            f"def fsMeta : Bool := {lean_bool(fs_meta)}\n"
            f"def jqMax : Int := {accepted[-1]}\n"
            f"def naDefault : Int := {int(na)}\n"
            f"def animName : String := {lean_str(T2.ANIM)}\n"
            f"def wholeName : String := {lean_str(T2.WHOLE)}\n"
            "end TIV.C20.Generated\n"
        )
        return {"TIV/C20/Generated.lean": body}

    # -- generator --------------------------------------------------------------------
    def generate(self, rng: random.Random, tier: str):
        g = Gen(rng)
        for ops, kind in targeted(g.n_lib, g.kitty, g.iterm) + entry_family(g.n_lib, g.kitty, g.iterm) + \
                nam_family(g.n_lib, (g.iterm, g.kitty)):
            yield Case("run " + " ".join(ops), {"ops": ops}, kind, True)
        small = [(g.kitty, "rm", 2), (g.iterm, "jq", 2)] if tier == "quick" else \
            [(g.kitty, "rm", 4), (g.iterm, "rm", 3), (g.iterm, "jq", 3), (g.iterm, "rf", 3)]
        for root, k, depth in small:
            for ops, kind in exhaustive(g.n_lib, root, k, depth):
                yield Case("run " + " ".join(ops), {"ops": ops}, kind, depth >= 2)
        while True:
            ops, kind = g.history()
            drv = "spec" if rng.random() < 0.25 else "run"
            yield Case(f"{drv} " + " ".join(ops), {"ops": ops}, f"{drv}:{kind}", is_nontrivial(ops))

    # -- implementation ---------------------------------------------------------------
    def _run(self, case: Case):
        key = case.key()
        if key not in self._trace:
            ops = case.line.split(" ")[1:]
            self._trace[key] = (ops,) + execute(ops)
        return self._trace[key]

    def impl(self, case: Case) -> str:
        ops, res, snaps, w = self._run(case)
        for op, r in zip(ops, res):
            f = op.split(",")
            what = f[0] if f[0] in ("nc", "ni", "dump", "rend") else \
                f"{'unset' if f[0] == 'del' or (f[0] == 'set' and f[3] == 'N' and f[1] == 'rm') else f[0]}-{f[1]}-{'class' if f[2][0] == 'c' else 'inst'}"
            out = r if r.startswith("!") else "m" if r.startswith("m:") else "accepted"
            key = f"{what}:{out}"
            self._ops_hist[key] = self._ops_hist.get(key, 0) + 1
        return "ok " + "|".join(res)

    def extra_checks(self, rng, tier, ev):
        ev["coverage"]["operations_by_kind_and_outcome"] = dict(sorted(self._ops_hist.items()))
        ev["coverage"]["operations_total"] = sum(self._ops_hist.values())
        return []

    # -- oracle -----------------------------------------------------------------------
    def oracle(self, case: Case, impl_result: str):
        ops, res, snaps, w = self._run(case)
        self._trace.pop(case.key(), None)
        bad = check_history(ops, res, snaps, w)
        if bad is None:
            return None
        key, what, n = bad
        return Failure(key, what, extra={"failing_op_index": n, "history_prefix": ops[: n + 1], "results": res[: n + 1]})

    def search(self, rng, tier, reasons):
        g = Gen(rng)
        out = []
        hist = targeted(g.n_lib, g.kitty, g.iterm) + entry_family(g.n_lib, g.kitty, g.iterm) + \
            nam_family(g.n_lib, (g.iterm, g.kitty)) + \
            [g.history() for _ in range(3000)]
        for ops, _ in hist:
            res, snaps, w = execute(ops)
            bad = check_history(ops, res, snaps, w)
            if bad:
                key, what, n = bad
                out.append(Failure(key, what, case=Case("run " + " ".join(ops[: n + 1] + ["dump"]), {"ops": ops[: n + 1]}),
                                   extra={"failing_op_index": n}))
                if len({f.key for f in out}) >= 5:
                    break
        return out


if __name__ == "__main__":
    fw.main(C20)
