"""Recording / fault-injecting instrumentation of Pillow for C11 (installed from outside, by
patching PIL's classes and module functions; the library is not edited).

Every *top-level* Pillow call made while `rec.on` is true is logged as
`(kind, receiver label, created label)`; objects are labelled in creation order with their role
(`s` caller-supplied source, `o` opened from a path, `m` opened from memory, `d` derived).
The k-th such call (closes excluded) raises `Fault` instead of running when `rec.fault == k`.
Nothing here keeps a strong reference to an image.
"""
from __future__ import annotations

import builtins
import gc
import io
import os
import weakref

import PIL.Image as PI

PI.init()


class Fault(ValueError):
    """what an injected failure of a Pillow call raises (a ValueError, so that the one `except
    ValueError` around a Pillow call in the library — iterm2 native animation — sees it too)"""


class FaultAttr(AttributeError):
    """an injected failure that is an AttributeError (not about `_animator`)"""


class FaultStop(StopIteration):
    """an injected StopIteration (inside a generator it surfaces as RuntimeError, PEP 479)"""


class FaultCustom(Exception):
    """an injected failure of a class nobody handles specially"""


class FaultKI(KeyboardInterrupt):
    """an injected BaseException"""


FAULT_CLASSES = {"value": Fault, "attr": FaultAttr, "stop": FaultStop, "custom": FaultCustom, "ki": FaultKI}


class Rec:
    def __init__(self):
        self.on = False
        self.depth = 0
        self.reset()

    def reset(self, fault=None, cls="value"):
        self.fault_cls = FAULT_CLASSES[cls]
        self.events = []      # strings
        self.n = 0            # labels handed out
        self.calls = 0        # fault points passed
        self.fault = fault
        self.alive = {}       # label -> weakref to the image
        self.fps = {}         # label -> weakref to the file object of an opened image
        self.closed = set()   # labels on which close()/__exit__ was called
        self.gone = set()     # labels whose object was garbage collected
        self.gc_open = set()  # labels of library-opened images collected while their file was still open
        self.raws = []        # (label, weakref to file object) opened with builtins.open by the library

    def label(self, img, role):
        lab = f"{role}{self.n}"
        self.n += 1
        img.__dict__["_c11"] = lab
        self.alive[lab] = weakref.ref(img)
        gone, gc_open, closed = self.gone, self.gc_open, self.closed  # this case's sets (stale callbacks stay out)
        fp = getattr(img, "fp", None)
        fpref = None
        if fp is not None and not isinstance(fp, io.BytesIO):
            try:
                fpref = self.fps[lab] = weakref.ref(fp)
            except TypeError:
                pass

        def on_collect():
            # runs while the image's attributes (hence its file object) still exist
            gone.add(lab)
            f = fpref() if fpref is not None else None
            if role == "o" and lab not in closed and f is not None and not f.closed:
                gc_open.add(lab)

        weakref.finalize(img, on_collect)
        return lab

    def open_unclosed(self):
        """library-opened images that nobody closed and whose file is (or was, when collected) still open:
        Pillow closes the file of a single-frame image by itself once it is loaded — those stay out."""
        out = set(self.gc_open)
        for lab, ref in self.alive.items():
            img = ref()
            if img is None or lab[0] != "o" or lab in self.closed:
                continue
            f = self.fps.get(lab)
            f = f() if f is not None else None
            if f is not None and not f.closed and getattr(img, "fp", None) is not None:
                out.add(lab)
        return sorted(out)

    def lab_of(self, img):
        return getattr(img, "__dict__", {}).get("_c11", "?")

    def point(self, kind, recv):
        """a fault point: raise instead of running when its number is the planned one"""
        k = self.calls
        self.calls += 1
        if self.fault is not None and k == self.fault:
            self.events.append(f"FAULT {kind}" + (f" {recv}" if recv else ""))
            raise self.fault_cls(f"injected at Pillow call #{k} ({kind})")


rec = Rec()

_METHODS = {  # method name -> (event kind, creates an image?)
    "seek": ("seek", False), "convert": ("convert", True), "resize": ("resize", True),
    "getdata": ("getdata", False), "tobytes": ("tobytes", False), "save": ("save", False),
    "alpha_composite": ("alpha_composite", False), "putalpha": ("putalpha", False),
    "getchannel": ("getchannel", True), "copy": ("copy", True), "crop": ("crop", True),
}


def _wrap_method(cls, name, kind, creates):
    orig = cls.__dict__[name]

    def wrapper(self, *a, **kw):
        if not rec.on or rec.depth:
            return orig(self, *a, **kw)
        recv = rec.lab_of(self)
        rec.point(kind, recv)
        rec.depth += 1
        try:
            out = orig(self, *a, **kw)
        except Exception as e:
            if kind == "seek" and isinstance(e, EOFError):
                # running off the end of an animation is part of normal operation
                rec.events.append(f"{kind}!{type(e).__name__} {recv}")
            else:
                # a Pillow call that fails by itself (truncated file, unknown format) is the same event as
                # the fault plan "this call raises"
                rec.events.append(f"FAULT {kind} {recv}")
            raise
        finally:
            rec.depth -= 1
        if creates and isinstance(out, PI.Image):
            rec.events.append(f"{kind} {recv} {rec.label(out, 'd')}")
        else:
            rec.events.append(f"{kind} {recv}")
        return out

    wrapper.__name__ = name
    wrapper._c11_orig = orig
    setattr(cls, name, wrapper)


def _wrap_close(cls, name):
    orig = cls.__dict__[name]

    def wrapper(self, *a, **kw):
        if rec.on and not rec.depth:
            lab = rec.lab_of(self)
            rec.events.append(f"close {lab}")
            rec.closed.add(lab)
        rec.depth += 1
        try:
            return orig(self, *a, **kw)
        finally:
            rec.depth -= 1

    wrapper._c11_orig = orig
    setattr(cls, name, wrapper)


def _wrap_prop(cls, name, kind):
    orig = cls.__dict__[name]

    def getter(self):
        if not rec.on or rec.depth:
            return orig.fget(self)
        recv = rec.lab_of(self)
        rec.point(kind, recv)
        rec.depth += 1
        try:
            out = orig.fget(self)
        finally:
            rec.depth -= 1
        rec.events.append(f"{kind} {recv}")
        return out

    p = property(getter)
    setattr(cls, name, p)


def _wrap_cached_prop(cls, name, kind):
    import functools

    orig = cls.__dict__[name]

    def compute(self):
        if not rec.on or rec.depth:
            return orig.func(self)
        recv = rec.lab_of(self)
        rec.point(kind, recv)
        rec.depth += 1
        try:
            out = orig.func(self)
        finally:
            rec.depth -= 1
        rec.events.append(f"{kind} {recv}")
        return out

    p = functools.cached_property(compute)
    p.__set_name__(cls, name)
    setattr(cls, name, p)


def _wrap_factory(name, kind, role_of):
    orig = getattr(PI, name)

    def wrapper(*a, **kw):
        if not rec.on or rec.depth:
            return orig(*a, **kw)
        rec.point(kind, None)
        rec.depth += 1
        try:
            out = orig(*a, **kw)
        finally:
            rec.depth -= 1
        rec.events.append(f"{kind} {rec.label(out, role_of(a, kw))}")
        return out

    wrapper._c11_orig = orig
    setattr(PI, name, wrapper)


def _subclasses(c):
    out = [c]
    for s in c.__subclasses__():
        out += _subclasses(s)
    return out


_installed = False


def install():
    global _installed
    if _installed:
        return
    _installed = True
    for cls in _subclasses(PI.Image):
        for name, (kind, creates) in _METHODS.items():
            if name in cls.__dict__ and callable(cls.__dict__[name]):
                _wrap_method(cls, name, kind, creates)
        for name in ("close", "__exit__"):
            if name in cls.__dict__:
                _wrap_close(cls, name)
        for name in ("n_frames", "is_animated"):
            if isinstance(cls.__dict__.get(name), property):
                _wrap_prop(cls, name, name)
            elif type(cls.__dict__.get(name)).__name__ == "cached_property":
                _wrap_cached_prop(cls, name, name)
    _wrap_factory("open", "open", lambda a, kw: "o" if a and isinstance(a[0], (str, os.PathLike)) else "m")
    _wrap_factory("new", "new", lambda a, kw: "d")
    _wrap_factory("frombytes", "frombytes", lambda a, kw: "d")


def adopt_source(img):
    """label a PIL image the harness hands to the library"""
    return rec.label(img, "s")


def fd_count():
    return len(os.listdir("/proc/self/fd"))


def quiesce():
    for _ in range(3):
        gc.collect()
