#!/venv/bin/python
"""C12 — terminal queries report what the terminal said, whatever the timing (DESIGN.md §5 C12).

The REAL `utils.read_tty / query_terminal / get_fg_bg_colors / get_terminal_name_version /
get_cell_size`, `KittyImage.is_supported`, `ITerm2Image.is_supported`, `auto_image_class` run
against a virtual terminal: fake `utils.os / termios / select / fcntl / monotonic` bound to a
`VT` with an INTEGER virtual clock (ticks).  `harness/common/env.py` is deliberately not used:
it replaces the very functions this property is about.
"""
from __future__ import annotations

import array
import itertools
import os
import random
import re
import sys
import termios as _termios

sys.path.insert(0, os.path.dirname(os.path.abspath(__file__)))
from common import framework as fw  # noqa: E402
from common.framework import Case, Failure, Property  # noqa: E402

fw.setup_import_path()

import term_image  # noqa: E402
from term_image import _ctlseqs as C  # noqa: E402
from term_image import utils  # noqa: E402
from term_image import image as IMG  # noqa: E402
from term_image.image import BlockImage, ITerm2Image, KittyImage  # noqa: E402
from term_image.image import kitty as KMOD, iterm2 as IMOD  # noqa: E402

_real_os = os

# --------------------------------------------------------------------------------------
# virtual terminal


class HarnessHang(BaseException):
    """the operation under test does not come back: it polled the virtual tty more often, or for longer in
    virtual time, than any terminating read can (BaseException: no `except Exception` of the library hides it)"""

    def __init__(self, kind, what):
        super().__init__(what)
        self.kind = kind  # "hang" | "blocked"


MAX_POLLS = 5000  # fake select()/read() calls one operation may make (a reply stream here has < 300 bytes)
TIME_FACTOR = 8  # … and virtual time it may use, in timeouts, beyond the last scheduled arrival


class VT:
    """tty input side in virtual time. `inq` = readable now; `pending` = [(abs tick, bytes)]"""

    def __init__(self):
        self.now = 0
        self.inq = bytearray()
        self.pending: list[tuple[int, bytes]] = []
        self.attrs = [0x100, 0x5, 0xBF, _termios.ECHO | _termios.ICANON | _termios.ISIG, 15, 15, [b"\x00"] * 32]
        self.written = bytearray()
        self.requests: list[bytes] = []
        self.responder = lambda data: []  # request bytes -> [(gap, bytes)] bursts
        self.size = (80, 30)
        self.ioctl = (0, 0)  # pixel fields or None for OSError
        self.environ: dict[str, str] = {}
        self.selects = 0
        self.reads = 0
        self.T = 100  # the timeout the operation under test was given
        self.horizon = 0  # latest arrival ever scheduled

    def guard(self, what):
        """bound every operation: raise HarnessHang once it cannot be a terminating read any more"""
        if self.selects + self.reads > MAX_POLLS or self.now > self.horizon + TIME_FACTOR * max(self.T, 1):
            raise HarnessHang("hang", f"still polling ({what}) after {self.selects} select() and {self.reads} read() calls, "
                              f"virtual time {self.now}, although the timeout is {self.T}")

    def deliver(self):
        self.pending.sort(key=lambda p: p[0])  # stable: earlier-scheduled first on ties
        while self.pending and self.pending[0][0] <= self.now:
            self.inq += self.pending.pop(0)[1]

    def load_stream(self, stream):
        """stream = [(gap, byte)] relative to now"""
        t = self.now
        for g, b in stream:
            t += g
            self.pending.append((t, bytes([b])))
            self.horizon = max(self.horizon, t)
        self.deliver()

    def schedule(self, bursts):
        t = self.now
        for g, bs in bursts:
            t += g
            if bs:
                self.pending.append((t, bytes(bs)))
                self.horizon = max(self.horizon, t)

    def stream(self):
        """what is unread, as [(gap, byte)] relative to now"""
        self.deliver()
        out = [(0, b) for b in self.inq]
        t = self.now
        for at, bs in self.pending:
            for i, b in enumerate(bs):
                out.append((at - t if i == 0 else 0, b))
            t = at
        return out


VTERM = VT()


class _FakeOS:
    def __getattr__(self, n):
        return getattr(_real_os, n)

    @property
    def environ(self):
        return VTERM.environ

    def write(self, fd, data):
        VTERM.written += data
        VTERM.requests.append(bytes(data))
        VTERM.schedule(VTERM.responder(bytes(data)))
        return len(data)

    def read(self, fd, n):
        VTERM.reads += 1
        VTERM.guard("read")
        VTERM.deliver()
        vmin = VTERM.attrs[6][_termios.VMIN]
        vmin = vmin if isinstance(vmin, int) else vmin[0]
        if not VTERM.attrs[3] & _termios.ICANON and vmin > 0:
            # non-canonical read with VMIN > 0, VTIME = 0: blocks until min(VMIN, n) bytes have arrived
            need = min(vmin, n)
            while len(VTERM.inq) < need:
                if not VTERM.pending:
                    raise HarnessHang("blocked", f"os.read blocks for good: {len(VTERM.inq)} of {need} bytes will ever arrive")
                VTERM.now = max(VTERM.now, VTERM.pending[0][0])
                VTERM.deliver()
        d = bytes(VTERM.inq[:n])
        del VTERM.inq[:n]
        return d

    def get_terminal_size(self, fd=None):
        return _real_os.terminal_size(VTERM.size)


class _FakeTermios:
    error = _termios.error

    def __getattr__(self, n):
        return getattr(_termios, n)

    def tcgetattr(self, fd):
        a = list(VTERM.attrs)
        a[6] = list(a[6])
        return a

    def tcsetattr(self, fd, when, attrs):
        a = list(attrs)
        a[6] = list(a[6])
        VTERM.attrs = a
        if when == _termios.TCSAFLUSH:
            VTERM.deliver()
            VTERM.inq.clear()

    def tcdrain(self, fd):
        pass


def _fake_select(r, w, x, timeout=None):
    VTERM.selects += 1
    VTERM.guard("select")
    VTERM.deliver()
    if timeout is not None and float(timeout).is_integer():
        timeout = int(timeout)  # keep the clock an exact integer (select(…, 0.0) in the drain)
    if VTERM.inq:
        return (r, [], [])
    if VTERM.pending and (timeout is None or VTERM.pending[0][0] <= VTERM.now + timeout):
        VTERM.now = max(VTERM.now, VTERM.pending[0][0])
        VTERM.deliver()
        return (r, [], [])
    if timeout is None:
        raise RuntimeError("virtual select: would block forever")
    VTERM.now = VTERM.now + timeout
    return ([], [], [])


class _FakeFcntl:
    def ioctl(self, fd, req, buf):
        if VTERM.ioctl is None:
            raise OSError("ioctl")
        buf[0], buf[1] = VTERM.size[1], VTERM.size[0]
        buf[2], buf[3] = VTERM.ioctl
        return 0


REAL_DEFAULT_TIMEOUT = term_image.DEFAULT_QUERY_TIMEOUT  # seconds
DEFAULT_TICKS = 50  # the library's default query timeout expressed in virtual ticks (1 tick = 2 ms)


def install():
    # the virtual clock counts ticks, so the library's default timeout is restated in ticks as well; the cases
    # configure timeouts on both sides of it through the public term_image.set_query_timeout()
    term_image.DEFAULT_QUERY_TIMEOUT = DEFAULT_TICKS
    utils._query_timeout = DEFAULT_TICKS
    utils.os = _FakeOS()
    utils.termios = _FakeTermios()
    utils.select = _fake_select
    utils.fcntl = _FakeFcntl()
    utils.monotonic = lambda: VTERM.now
    utils._tty_fd = 99


def fresh(T=100, enabled=True, swap=False):
    """a new virtual terminal and library state as after import"""
    global VTERM
    VTERM = VT()
    VTERM.T = T
    utils._query_timeout = DEFAULT_TICKS  # as after import …
    if T != DEFAULT_TICKS:
        if T > 0:
            term_image.set_query_timeout(T)  # … then configured the way a user does it
        else:
            utils._query_timeout = T
    utils._queries_enabled = enabled
    utils._swap_win_size = swap
    utils._cell_size_cache[:] = [0] * 4
    utils.get_fg_bg_colors._invalidate_cache()
    utils.get_terminal_name_version._invalidate_cache()
    for cls in (KittyImage, ITerm2Image, BlockImage):
        cls._supported = None
    return VTERM


# --------------------------------------------------------------------------------------
# a terminal that answers what it is asked

QUERIES = {
    "fg": C.TEXT_FG_QUERY_b, "bg": C.TEXT_BG_QUERY_b, "ver": C.XTVERSION_b, "kitty": C.KITTY_SUPPORT_QUERY_b,
    "cell": C.CELL_SIZE_PX_b, "area": C.TEXT_AREA_SIZE_PX_b, "da1": C.DA1_b,
}


def asked(request: bytes) -> list[str]:
    """the queries contained in a request, in order"""
    out, i = [], 0
    names = sorted(QUERIES, key=lambda k: -len(QUERIES[k]))
    while i < len(request):
        for k in names:
            if request.startswith(QUERIES[k], i):
                out.append(k)
                i += len(QUERIES[k])
                break
        else:
            i += 1
    return out


def cut_bursts(stream: bytes, cuts, gaps):
    """split `stream` at the positions `cuts` (those inside it), burst i after gap gaps[i]"""
    pos = [c for c in sorted(set(cuts)) if 0 < c < len(stream)]
    pieces = [stream[a:b] for a, b in zip([0] + pos, pos + [len(stream)])]
    gs = list(gaps) + [0] * len(pieces)
    return [(gs[i], pieces[i]) for i in range(len(pieces)) if pieces[i]] if stream else []


def terminal(term: dict):
    """responder for a terminal description {"replies": {query: hex|None}, "cuts": […], "gaps": […]};
    each written request is answered by the replies of the queries it contains, in order."""

    def responder(request: bytes):
        return expected_bursts(term, asked(request))

    return responder


def expected_bursts(term: dict, queries: list[str]):
    """the write bursts with which the terminal answers a request made of `queries`; the burst plan
    (cut positions, gaps) is chosen by the first query of the request"""
    stream = b"".join(bytes.fromhex(term["replies"][q]) for q in queries if term["replies"].get(q))
    plan = term["plans"].get(queries[0] if queries else "*") or term["plans"].get("*") or {"cuts": [], "gaps": [0]}
    return cut_bursts(stream, plan["cuts"], plan["gaps"])


# --------------------------------------------------------------------------------------
# wire helpers (exactly the driver's formats)


def hx(b) -> str:
    b = bytes(b)
    return b.hex() if b else "-"


def f_stream(s) -> str:
    return " ".join([str(len(s))] + [f"{g} {b}" for g, b in s])


def f_bursts(bs) -> str:
    return " ".join([str(len(bs))] + [f"{g} {hx(b)}" for g, b in bs])


def f_ob(o) -> str:
    return "none" if o is None else "some " + hx(o if isinstance(o, bytes) else o.encode())


def f_rgb(o) -> str:
    return "none" if o is None else "some %d %d %d" % tuple(o)


def f_bool(b) -> str:
    return "1" if b else "0"


def tail() -> str:
    return f" @ {VTERM.now} " + f_stream(VTERM.stream())


MORE = {
    "c": lambda s: not s.endswith(b"c"),
    "csi": lambda s: not s.endswith(C.CSI_b),
}


def more_of(spec):
    if spec[0] == "lt":
        k = spec[1]
        return lambda s: len(s) < k
    return MORE[spec[0]]


def f_more(spec) -> str:
    return " ".join(str(x) for x in spec)


def lean_bytes(b: bytes) -> str:
    return "[" + ", ".join(str(x) for x in b) + "]"


from PIL import Image as _PILImage  # noqa: E402
import contextlib  # noqa: E402

PIL_1x1 = _PILImage.new("RGB", (1, 1))


@contextlib.contextmanager
def real_env(TERM, COLORTERM):
    """$TERM / $COLORTERM of the process (BlockImage.is_supported reads the real environment)"""
    saved = {k: _real_os.environ.get(k) for k in ("TERM", "COLORTERM")}
    try:
        for k, v in (("TERM", TERM), ("COLORTERM", COLORTERM)):
            if v is None:
                _real_os.environ.pop(k, None)
            else:
                _real_os.environ[k] = v
        yield
    finally:
        for k, v in saved.items():
            if v is None:
                _real_os.environ.pop(k, None)
            else:
                _real_os.environ[k] = v


def block_supported_real(TERM, COLORTERM) -> bool:
    with real_env(TERM, COLORTERM):
        BlockImage._supported = None
        try:
            return bool(BlockImage.is_supported())
        finally:
            BlockImage._supported = None


STYLE_NAME = {"KittyImage": "kitty", "ITerm2Image": "iterm2", "BlockImage": "block"}
REQ = {
    "colors": ["fg", "bg", "da1"], "namever": ["ver", "da1"], "cellsize": ["cell", "area", "da1"],
    "kitty": ["kitty", "da1"],
}

# --------------------------------------------------------------------------------------
# building replies (generator side; the oracle re-derives expectations from the semantic values)

ST, BEL = b"\x1b\\", b"\x07"
HEXD = "0123456789abcdefABCDEF"


def color_reply(code: int, comps, term: bytes) -> bytes:
    return b"\x1b]%d;rgb:" % code + "/".join(comps).encode() + term


def xt_reply(name: str, ver: str, paren: bool, term: bytes) -> bytes:
    return b"\x1bP>|" + name.encode() + (b"(" + ver.encode() + b")" if paren else b" " + ver.encode()) + term


def rnd_comp(rng, n=None):
    n = n or rng.choice([1, 2, 3, 4])
    how = rng.random()
    if how < 0.15:
        return "0" * n
    if how < 0.3:
        return rng.choice("fF") * n
    return "".join(rng.choice(HEXD) for _ in range(n))


def rnd_da1(rng) -> bytes:
    return b"\x1b[?" + ";".join(str(rng.choice([1, 2, 4, 6, 22, 62, 64, 65])) for _ in range(rng.randrange(1, 5))).encode() + b"c"


NAMES = [("kitty", True), ("Konsole", False), ("WezTerm", False), ("iTerm2", False), ("XTerm", True), ("foot", True),
         ("tmux", False), ("mintty", False), ("VTE", True), ("contour", False), ("KITTY", True), ("konsole", False)]


def rnd_version(rng, name):
    lo = name.lower()
    if lo == "kitty":
        return rng.choice(["0.20.0", "0.19.3", "0.19.99", "0.20", "0.21.2", "0.30.1", "1.0.0", "0.20.0.1", "0.9.30",
                           "0", "1", "0.20.x", "0.35.2-dev", "0.21.2-Nightly", "0.35.2-DEV", "0.26.5-RC1", "%d.%d.%d" % (rng.randrange(2), rng.randrange(40), rng.randrange(5))])
    if lo == "konsole":
        return rng.choice(["22.04.0", "22.4.0", "22.03.9", "21.12.3", "22.4", "23.08.1", "22.04.0-beta", "22.04.0-Beta", "23.08.1-RC2", "22",
                           "%d.%02d.%d" % (rng.randrange(20, 25), rng.randrange(1, 13), rng.randrange(4))])
    if lo == "wezterm":
        return rng.choice(["20230712-072601-f4abf8fd", "20230712-072601-F4ABF8FD", "20240203-110809-5046FC22", "20220101"])
    # upper-case letters are frequent: the version is reported exactly as replied (only the NAME is lower-cased)
    return rng.choice(["3.4.19", "370", "1.13.1", "3.3a", "6003", "0.3.1.200", "388-RC1", "3.5.0beta12-DEV", "3.3A", "1.16.2-Nightly", "V2", "%d.%d" % (rng.randrange(9), rng.randrange(30))])


# free text of real-world version replies: valid UTF-8 beyond ASCII (never digits or white space of another script -
# Python's int() would accept those; never bytes that are not UTF-8 - the unchanged code raises UnicodeDecodeError on them)
UTF8_TEXT = ["\u2013nightly", " \u00b7 wayland", "\u00e9", " \u65e5\u672c", "-b\u00eata", " (\u65e5"[:-2] + "\u672c\u8a9e"]


def utf8_free_text(rng, ver: str) -> str:
    return ver + rng.choice(UTF8_TEXT) if rng.random() < 0.15 else ver


def vtuple_or_none(v: str):
    """independent reading of a dotted version made of plain decimal numbers"""
    parts = v.split(".")
    if all(re.fullmatch(r"[0-9]+", p) for p in parts):
        return tuple(int(p) for p in parts)
    return None


def rnd_splits(rng, stream: bytes, units, T, mode):
    """cuts/gaps for a reply stream. mode: unit (bursts = whole replies), any (arbitrary cuts),
    late (some arrival at/after T)"""
    n = len(stream)
    if mode == "unit":
        bounds = list(itertools.accumulate(len(u) for u in units))[:-1]
        cuts = [b for b in bounds if rng.random() < 0.6]
    else:
        k = rng.choice([0, 1, 2, 3, n - 1 if n > 1 else 0])
        cuts = sorted(rng.sample(range(1, n), min(k, n - 1))) if n > 1 else []
    m = len(cuts) + 1
    if mode == "late":
        gaps = [rng.choice([0, 1, T // 2, T - 1, T, T + 1, 2 * T]) for _ in range(m)]
    else:
        # arrival times strictly below T: choose sorted absolute times, then differences
        times = sorted(rng.choice([0, 0, 1, T // 10, T // 2, T - 1, rng.randrange(T)]) for _ in range(m))
        gaps = [times[0]] + [b - a for a, b in zip(times, times[1:])]
    return cuts, gaps


# --------------------------------------------------------------------------------------


from common.py2lean_specs import with_translation  # noqa: E402


@with_translation
class C12(Property):
    id = "C12"
    title = "Terminal queries report what the terminal said, whatever the timing"
    lean_props = ["TIV.C12.Props"]
    driver = "drv_c12"
    partial = ("real select()/tty timing (virtual time only in the quick tier; the thorough tier adds a real pty), "
               "CPython `re` (the five response regexes are re-expressed as Lean recognisers and diffed against `re` "
               "on generated and near-miss strings), CPython int()/str.split/str.lower")
    assumptions = [
        "reading costs no virtual time; select() wakes exactly at the arrival of the next byte or at the deadline",
        "replies are ASCII (the code .decode()s them); every reply is written by the terminal as a unit",
    ]
    quick_cases = 30000
    thorough_cases = 400000

    # -- translator -------------------------------------------------------------------
    def gen_constants(self):
        styles = [STYLE_NAME[c.__name__] for c in IMG._styles]
        # requests as the real callers write them (captured live on the virtual tty)
        reqs = {}
        for name, call in (
            ("reqColors", lambda: utils.get_fg_bg_colors()),
            ("reqNameVersion", lambda: utils.get_terminal_name_version()),
            ("reqCellSize", lambda: utils.get_cell_size()),
            ("reqKitty", lambda: KittyImage.is_supported()),
        ):
            vt = fresh(T=5)
            if name == "reqKitty":
                utils.get_terminal_name_version._invalidate_cache()
                KMOD.get_terminal_name_version, saved = (lambda: (None, None)), KMOD.get_terminal_name_version
                try:
                    call()
                except HarnessHang:  # the request is written before the read; a read that never ends is the cases' business
                    pass
                finally:
                    KMOD.get_terminal_name_version = saved
            else:
                try:
                    call()
                except HarnessHang:
                    pass
            reqs[name] = bytes(vt.written)
        fresh()
        pats = {
            "rgbSpecSrc": C.RGB_SPEC_re, "xtversionSrc": C.XTVERSION_re, "textAreaSrc": C.TEXT_AREA_SIZE_PX_re,
            "cellSizeSrc": C.CELL_SIZE_PX_re, "kittyRespSrc": C.KITTY_RESPONSE_re,
        }
        body = "/-! GENERATED by harness/c12.py from the imported package — do not edit -/\nnamespace TIV.C12.Generated\n"
        body += "/-- `_styles` of term_image.image, in order -/\n"
        body += "def styles : List String := [" + ", ".join(f'"{s}"' for s in styles) + "]\n"
        for k, p in pats.items():
            body += f"def {k} : List Nat := {lean_bytes(p.pattern.encode())}\n"
        body += "def regexFlags : List Nat := [" + ", ".join(str(int(p.flags)) for p in pats.values()) + "]\n"
        for k, v in reqs.items():
            body += f"def {k} : List Nat := {lean_bytes(v)}\n"
        body += f"def csi : List Nat := {lean_bytes(C.CSI_b)}\n"
        body += f"def kittyQueryId : List Nat := {lean_bytes(re.search(rb'i=(\d+)', C.KITTY_SUPPORT_QUERY_b).group(1))}\n"
        body += "end TIV.C12.Generated\n"
        return {"TIV/C12/Generated.lean": body}

    # -- generator --------------------------------------------------------------------
    def generate(self, rng: random.Random, tier: str):
        yield from self.gen_fixed(tier)
        kinds = ["read", "read", "avail", "merge", "query", "colors", "colors", "colors", "namever", "namever", "nameverq",
                 "cellsize", "cellsize", "kitty", "kitty", "iterm", "auto", "auto", "parsers", "parsers", "xparse"]
        while True:
            k = rng.choice(kinds)
            yield from getattr(self, "gen_" + k)(rng)

    def gen_fixed(self, tier):
        """exhaustive: every split of short reply streams into bursts"""
        streams = [(b"\x1b[?6c", ("c",)), (b"\x1b]1;a\x07\x1b[?1c", ("csi",))]
        for stream, more in streams:
            n = len(stream)
            lim = min(n, 12 if tier == "thorough" else 7)
            for mask in range(1 << (lim - 1)):
                cuts = [i + 1 for i in range(lim - 1) if mask >> i & 1]
                for gap in (0, 3):
                    bursts = cut_bursts(stream, cuts, [gap] * (len(cuts) + 1))
                    if sum(g for g, _ in bursts) >= 40:
                        continue
                    d = {"op": "query", "enabled": True, "more": list(more), "T": 40, "w": [], "bursts": [[g, b.hex()] for g, b in bursts]}
                    yield Case(f"query 1 {f_more(more)} 40 0 {f_bursts(bursts)}", d, "query-allsplits", True)
        for pat in itertools.product([1, 2, 3, 4], repeat=3):
            for fill in ("0", "f", "8"):
                body = "/".join(fill * n for n in pat)
                yield Case(f"xparse {hx(body.encode())}", {"op": "xparse", "body": body, "conformant": True}, "xparse-grid", True)

    def rnd_stream(self, rng, alphabet=b"ab\x1b[c;0", maxlen=8, T=20):
        n = rng.randrange(0, maxlen + 1)
        s = []
        for _ in range(n):
            g = rng.choice([0, 0, 0, 1, 2, T // 2, T - 1, T, T + 1])
            s.append((g, rng.choice(alphabet)))
        return s

    def gen_read(self, rng):
        T = rng.choice([1, 2, 5, 20, 100])
        more = rng.choice([("c",), ("csi",), ("lt", rng.randrange(0, 6))])
        w = self.rnd_stream(rng, T=T)
        if rng.random() < 0.5:  # deadline boundary: total span T-1, T, T+1
            tot = sum(g for g, _ in w)
            if w:
                tgt = T + rng.choice([-1, 0, 1])
                w[-1] = (max(0, w[-1][0] + tgt - tot), w[-1][1])
        d = {"op": "read", "more": list(more), "T": T, "w": w}
        yield Case(f"read {f_more(more)} {T} {f_stream(w)}", d, "read-" + more[0], len(w) > 0)
        # the literal loop: number of select() calls
        yield Case(f"polls {f_more(more)} {T} {f_stream(w)}", {"op": "polls", "more": list(more), "T": T, "w": w},
                   "polls" + ("-silent" if not w else ""), True)
        # min= (blocking read of `min` bytes first) and echo=
        mn = rng.choice([0, 1, 1, 2, 3, len(w), len(w) + 1])
        echo = rng.random() < 0.5
        d = {"op": "readtty", "more": list(more), "T": T, "min": mn, "echo": echo, "w": w}
        kind = "readtty-min0" if mn == 0 else "readtty-blocked" if mn > len(w) else "readtty-min"
        yield Case(f"readtty {f_more(more)} {T} {mn} {f_bool(echo)} {f_stream(w)}", d, kind + ("-echo" if echo else ""), mn > 0)

    def gen_avail(self, rng):
        w = self.rnd_stream(rng)
        yield Case(f"avail {f_stream(w)}", {"op": "avail", "w": w}, "avail", len(w) > 0)

    def gen_merge(self, rng):
        a, b = self.rnd_stream(rng, maxlen=5), self.rnd_stream(rng, maxlen=5)
        bb = ofbursts_py([(g, bytes([x])) for g, x in b])
        yield Case(f"merge {f_stream(a)} {f_stream(bb)}", {"op": "merge", "a": a, "b": bb}, "merge", bool(a and bb))
        bursts = [(rng.choice([0, 0, 1, 5]), bytes(rng.choice(b"ab\x1b[c") for _ in range(rng.choice([0, 1, 1, 2, 3]))))
                  for _ in range(rng.randrange(0, 5))]
        yield Case(f"bursts {f_bursts(bursts)}", {"op": "bursts", "bursts": [[g, x.hex()] for g, x in bursts]}, "bursts", bool(bursts))

    def gen_query(self, rng):
        T = rng.choice([1, 5, 20, DEFAULT_TICKS, 100])
        more = rng.choice([("c",), ("csi",), ("lt", rng.randrange(0, 6))])
        w = self.rnd_stream(rng, maxlen=4, T=T) if rng.random() < 0.5 else []
        stream = bytes(rng.choice(b"ab\x1b[c;0") for _ in range(rng.randrange(0, 9)))
        cuts, gaps = rnd_splits(rng, stream, [stream], T, rng.choice(["any", "any", "late"]))
        bursts = cut_bursts(stream, cuts, gaps)
        en = rng.random() < 0.9
        d = {"op": "query", "enabled": en, "more": list(more), "T": T, "w": w, "bursts": [[g, b.hex()] for g, b in bursts]}
        yield Case(f"query {f_bool(en)} {f_more(more)} {T} {f_stream(w)} {f_bursts(bursts)}", d, "query", bool(stream))

    # ---- the four callers: a terminal description + the expected arrivals
    def _term_case(self, rng, op, replies, units_order, T=None, mode=None, extra_line="", extra=None, sem=None,
                   wellformed=True):
        T = T or rng.choice([10, 20, DEFAULT_TICKS, 100, 100, 200, 1000])  # below, at and above the default
        mode = mode or rng.choice(["unit", "unit", "unit", "any", "late"])
        units = [bytes.fromhex(replies[q]) for q in units_order if replies.get(q)]
        stream = b"".join(units)
        cuts, gaps = rnd_splits(rng, stream, units, T, mode)
        term = {"replies": replies, "plans": {"*": {"cuts": cuts, "gaps": gaps}}}
        en = rng.random() < 0.93
        stale = rng.random() < 0.25
        w = [(0, rng.choice(b"xc[\x1b")) for _ in range(rng.randrange(1, 4))] if stale else []
        if rng.random() < 0.04:
            w.append((rng.choice([1, T // 2, T + 3]), rng.choice(b"c[q")))
        bursts = expected_bursts(term, units_order)
        future_junk = any(g > 0 for g, _ in w)
        d = {"op": op, "enabled": en, "T": T, "w": w, "term": term, "sem": sem or {},
             "conformant": bool(wellformed and mode == "unit" and not future_junk)}
        d.update(extra or {})
        line = f"{op} {f_bool(en)} {T} {f_stream(w)} {f_bursts(bursts)}{extra_line}"
        kind = f"{op}-{mode}" + ("" if en else "-disabled") + ("" if wellformed else "-malformed")
        return Case(line, d, kind, bool(stream) and en)

    def gen_colors(self, rng):
        sup = {q: rng.random() < 0.85 for q in ("fg", "bg", "da1")}
        sem, replies, wellformed = {}, {}, True
        for q, code in (("fg", 10), ("bg", 11)):
            if not sup[q]:
                continue
            same = rng.random() < 0.5
            n = rng.choice([1, 2, 3, 4])
            comps = [rnd_comp(rng, n if same else None) for _ in range(3)]
            t = rng.choice([ST, BEL])
            r = color_reply(code, comps, t)
            if rng.random() < 0.12:  # malformed / unusual
                wellformed = False
                r = rng.choice([
                    color_reply(code, comps[:2], t), color_reply(code, comps + ["0"], t), color_reply(code, ["", "ff", "ff"], t),
                    color_reply(code, [comps[0], "", comps[2]], t), color_reply(code + 2, comps, t),
                    r[:-len(t)], r.replace(b"rgb:", b"rgba:"), color_reply(code, ["fffff", "0", "00000"], t),
                    b"\x1b]0%d;rgb:" % code + "/".join(comps).encode() + t, color_reply(code, comps, t) * 2,
                    color_reply(code, ["g0", "00", "00"], t),
                ])
            else:
                sem[q] = comps
            replies[q] = r.hex()
        if sup["da1"]:
            replies["da1"] = rnd_da1(rng).hex()
        yield self._term_case(rng, "colors", replies, REQ["colors"], sem=sem, wellformed=wellformed)

    def gen_namever(self, rng):
        # non-ASCII free text only when every reply arrives whole and in time: a reply that the timeout cuts inside a
        # multi-byte character is not valid UTF-8 any more and `.decode()` raises on the unchanged code as well
        mode = rng.choice(["unit", "unit", "unit", "any", "late"])
        sup = {q: rng.random() < 0.85 for q in ("ver", "da1")}
        sem, replies, wellformed = {}, {}, True
        if sup["ver"]:
            name, paren = rng.choice(NAMES)
            ver = rnd_version(rng, name)
            if rng.random() < 0.3:
                paren = not paren
            if rng.random() < 0.15:
                ver = rng.choice([ver + " beta", "[" + ver, ver + "\x07x", "v" + ver, ver + "c", " " + ver, "1.2(3"])
            if mode == "unit":
                ver = utf8_free_text(rng, ver)
            t = rng.choice([ST, ST, BEL])
            r = xt_reply(name, ver, paren, t)
            if rng.random() < 0.12:
                wellformed = False
                r = rng.choice([
                    b"\x1bP>|" + name.encode() + b"-" + ver.encode() + t, b"\x1bP>|" + name.encode() + t,
                    b"\x1bP>|" + name.encode() + b"()" + t, xt_reply(name, ver, paren, b""), b"\x1bP|" + name.encode() + b" 1" + t,
                    xt_reply(name, ver + ")", paren, t), xt_reply("", ver, paren, t), xt_reply(name + "-x", ver, paren, t),
                    xt_reply(name, ver + ")x", True, t), b"x" + r,
                ])
            else:
                sem["ver"] = [name, ver]
            replies["ver"] = r.hex()
        if sup["da1"]:
            replies["da1"] = rnd_da1(rng).hex()
        env = rng.choice([(None, None), (None, None), ("WezTerm", "20230712"), ("iTerm.app", None), ("", ""), (None, "3")])
        extra_line = f" {f_ob(env[0])} {f_ob(env[1])}"
        yield self._term_case(rng, "namever", replies, REQ["namever"], sem=sem, wellformed=wellformed, mode=mode,
                              extra_line=extra_line, extra={"env": list(env)})

    def gen_nameverq(self, rng):
        """XTVERSION replies that are NOT valid UTF-8 (Latin-1 name byte, stray 0xFF/0xC3, truncated sequence), whole and in
        time, DA1 answered or not: the unchanged code raises UnicodeDecodeError - after the drain. Only what the call leaves
        on the tty is compared and judged (op `nameverq`): no byte of its replies may stay queued for the next reader."""
        name, paren = rng.choice(NAMES)
        ver = rnd_version(rng, name).encode()
        bad = rng.choice([b"\xe9", b"\xff", b"\xc3", b"\xe6\x97", b"\x80"])
        nm = name.encode()
        if rng.random() < 0.5:
            ver = ver + bad if rng.random() < 0.5 else bad + ver
        else:
            nm = nm + bad  # the name group ends here (re.ASCII); still bytes of the reply
        t = rng.choice([ST, ST, BEL])
        r = b"\x1bP>|" + nm + (b"(" + ver + b")" if paren else b" " + ver) + t
        replies = {"ver": r.hex()}
        if rng.random() < 0.85:
            replies["da1"] = rnd_da1(rng).hex()
        env = rng.choice([(None, None), ("WezTerm", "20230712")])
        yield self._term_case(rng, "nameverq", replies, REQ["namever"], sem={}, wellformed=True,
                              mode=rng.choice(["unit", "unit", "unit", "any"]),
                              extra_line=f" {f_ob(env[0])} {f_ob(env[1])}", extra={"env": list(env)})

    def gen_cellsize(self, rng):
        cols, rows = rng.choice([(80, 30), (80, 30), (120, 40), (1, 1), (200, 1), (0, 0), (0, 24), (80, 0), (7, 3)])
        io = rng.choice([(0, 0), (0, 0), (0, 0), (640, 480), (0, 480), (640, 0), (79, 29), (1600, 900), None])
        sup = {q: rng.random() < 0.7 for q in ("cell", "area", "da1")}
        sem, replies, wellformed = {}, {}, True
        cw, ch = rng.choice([(8, 16), (10, 20), (1, 1), (0, 0), (0, 16), (9, 0), (rng.randrange(30), rng.randrange(60))])
        aw, ah = rng.choice([(640, 480), (cols * 9 + 3, rows * 18 + 5), (cols - 1 if cols else 0, 500), (0, 0), (1280, 0), (12345, 6789)])
        if sup["cell"]:
            replies["cell"] = (b"\x1b[6;%d;%dt" % (ch, cw)).hex()
            sem["cell"] = [cw, ch]
        if sup["area"]:
            replies["area"] = (b"\x1b[4;%d;%dt" % (ah, aw)).hex()
            sem["area"] = [aw, ah]
        if sup["da1"]:
            replies["da1"] = rnd_da1(rng).hex()
        if rng.random() < 0.1:
            wellformed = False
            q = rng.choice(["cell", "area"])
            replies[q] = rng.choice([b"\x1b[6;16t", b"\x1b[6;;8t", b"\x1b[4;480;640", b"\x1b[8;30;80t", b"\x1b[6;16;8;1t", b"\x1b[ 6;16;8t",
                                     b"\x1b[6;016;008t", b"x\x1b[6;16;8t"]).hex()
        swap, termux = rng.random() < 0.4, rng.random() < 0.15
        iol = "none" if io is None else f"some {io[0]} {io[1]}"
        extra_line = f" {cols} {rows} {iol} {f_bool(swap)} {f_bool(termux)}"
        yield self._term_case(rng, "cellsize", replies, REQ["cellsize"], sem=sem, wellformed=wellformed, extra_line=extra_line,
                              extra={"cols": cols, "rows": rows, "ioctl": None if io is None else list(io), "swap": swap, "termux": termux})

    def _rnd_namever(self, rng):
        name, _ = rng.choice(NAMES + [("kitty", True)] * 4 + [("Konsole", False)] * 3)
        ver = rnd_version(rng, name)
        name = name.lower()
        r = rng.random()
        if r < 0.06:
            return None, None
        if r < 0.12:
            return name, None
        if r < 0.16:
            return name, ""
        if r < 0.24:
            ver = rng.choice([ver + "\u2013nightly", ver + " \u00b7 x", " " + ver, ver + " ", "+" + ver, "0.2_0.0", "0.-20.0", ver + ".", "." + ver, "0..20", "1_0.0", "0x14.0", "0.20.0\n"])
        return name, ver

    def gen_kitty(self, rng):
        name, ver = self._rnd_namever(rng)
        sup = {q: rng.random() < 0.8 for q in ("kitty", "da1")}
        replies, wellformed = {}, True
        sem = {"name": name, "ver": ver}
        if sup["kitty"]:
            msg = rng.choice([b"OK"] * 6 + [b"ENOTSUPPORTED", b"EINVAL:bad", b"OK ", b"ok", b"O", b"OKK"])
            ident = rng.choice([b"31"] * 8 + [b"1", b"310", b"031"])
            num = rng.choice([b""] * 5 + [b",I=7", b",I=", b",p=1"])
            r = b"\x1b_Gi=" + ident + num + b";" + msg + ST
            if rng.random() < 0.1:
                wellformed = False
                r = rng.choice([b"\x1b_Gi=31;" + ST, b"\x1b_Gi=31;O\nK" + ST, b"\x1b_Gi=31;OK", b"\x1b_G;OK" + ST, b"\x1b_Gi=31;EINVAL:action" + ST,
                                b"\x1b_Gi=31;OK\x07", b"\x1b_Gi=31,I=2;\x1b\\\x1b\\", b"\x1b_Ga=31;OK" + ST])
            else:
                sem["reply"] = [ident.decode(), num.decode(), msg.decode()]
            replies["kitty"] = r.hex()
        if sup["da1"]:
            replies["da1"] = rnd_da1(rng).hex()
        extra_line = f" {f_ob(name)} {f_ob(ver)}"
        yield self._term_case(rng, "kitty", replies, REQ["kitty"], sem=sem, wellformed=wellformed, extra_line=extra_line,
                              extra={"name": name, "ver": ver})

    def gen_iterm(self, rng):
        name, ver = self._rnd_namever(rng)
        yield Case(f"iterm {f_ob(name)} {f_ob(ver)}", {"op": "iterm", "name": name, "ver": ver}, "iterm", name is not None)

    def gen_auto(self, rng):
        T = rng.choice([10, 20, DEFAULT_TICKS, 100, 1000])
        name, paren = rng.choice(NAMES + [("kitty", True)] * 4 + [("Konsole", False)] * 3 + [("iTerm2", False), ("WezTerm", False)] * 2)
        mode = rng.choice(["unit", "unit", "any", "late"])
        ver = rnd_version(rng, name)
        if mode == "unit":
            ver = utf8_free_text(rng, ver)
        sup = {q: rng.random() < 0.85 for q in ("ver", "da1")}
        sup["kitty"] = name.lower() in ("kitty", "konsole") and rng.random() < 0.85 or rng.random() < 0.1
        replies = {}
        if sup["ver"]:
            replies["ver"] = xt_reply(name, ver, paren, rng.choice([ST, BEL])).hex()
        if sup["kitty"]:
            replies["kitty"] = (b"\x1b_Gi=31;" + rng.choice([b"OK"] * 5 + [b"ENOTSUP"]) + ST).hex()
        if sup["da1"]:
            replies["da1"] = rnd_da1(rng).hex()
        plans = {}
        for first, qs in (("ver", REQ["namever"]), ("kitty", REQ["kitty"])):
            us = [bytes.fromhex(replies[q]) for q in qs if replies.get(q)]
            cuts, gaps = rnd_splits(rng, b"".join(us), us, T, mode)
            plans[first] = {"cuts": cuts, "gaps": gaps}
        units = [bytes.fromhex(replies[q]) for q in ("ver", "kitty", "da1") if replies.get(q)]
        term = {"replies": replies, "plans": plans}
        env = rng.choice([(None, None)] * 4 + [("WezTerm", "20230712"), ("iTerm.app", "3.4"), ("konsole", "22.04.1"), ("konsole", None)])
        en = rng.random() < 0.9
        # BlockImage's own rule is left REAL: it reads $TERM / $COLORTERM
        TERM, COLORTERM = rng.choice(["xterm", "screen", "linux", "xterm-256color"]), rng.choice([None, None, "truecolor"])
        block = block_supported_real(TERM, COLORTERM)
        styles = [STYLE_NAME[c.__name__] for c in IMG._styles]
        b_nv, b_k = expected_bursts(term, REQ["namever"]), expected_bursts(term, REQ["kitty"])
        d = {"op": "auto", "enabled": en, "T": T, "w": [], "term": term, "env": list(env), "block": block, "TERM": TERM, "COLORTERM": COLORTERM,
             "sem": {"name": name, "ver": ver, "sup": sup}, "conformant": mode == "unit"}
        line = (f"auto {len(styles)} {' '.join(styles)} {f_bool(en)} {T} 0 {f_bursts(b_nv)} {f_bursts(b_k)} "
                f"{f_ob(env[0])} {f_ob(env[1])} {f_bool(block)}")
        yield Case(line, d, f"auto-{mode}" + ("" if en else "-disabled") + ("" if block else "-noblock"), en and bool(units))
        sup3 = [rng.random() < 0.5 for _ in range(3)]
        perm = rng.sample(["kitty", "iterm2", "block"], rng.randrange(1, 4))
        yield Case(f"autoclass {len(perm)} {' '.join(perm)} {' '.join(f_bool(b) for b in sup3)}",
                   {"op": "autoclass", "styles": perm, "sup": sup3}, "autoclass", True)

    def gen_xparse(self, rng):
        same = rng.random() < 0.3
        n = rng.choice([1, 2, 3, 4])
        comps = [rnd_comp(rng, n if same else None) for _ in range(3)]
        conf = True
        if rng.random() < 0.15:
            conf = False
            comps = rng.choice([comps[:2], comps + ["1"], ["", "1", "2"], [comps[0], "", "1"], ["fffff", "00000", "1"], [""], ["1"]])
        body = "/".join(comps)
        yield Case(f"xparse {hx(body.encode())}", {"op": "xparse", "body": body, "conformant": conf}, "xparse" + ("" if conf else "-odd"), True)

    def gen_parsers(self, rng):
        which = rng.choice(["findall", "xtversion", "winops", "kittyresp", "pyint", "vtuple", "lexge"])

        def mutate(b: bytes) -> bytes:
            b = bytearray(b)
            for _ in range(rng.choice([0, 0, 1, 1, 2])):
                how = rng.random()
                pos = rng.randrange(len(b) + 1)
                ch = rng.choice(b"\x1b\\]P>|()[;:/\x07\n0a9fFgG ,I=it_cOK.-+")
                if how < 0.4 and b:
                    b[min(pos, len(b) - 1)] = ch
                elif how < 0.7:
                    b.insert(pos, ch)
                elif b:
                    del b[min(pos, len(b) - 1)]
            return bytes(b)

        if which == "findall":
            parts = []
            for _ in range(rng.randrange(0, 4)):
                parts.append(rng.choice([
                    color_reply(rng.choice([10, 11, 12, 4]), [rnd_comp(rng) for _ in range(3)], rng.choice([ST, BEL])),
                    rnd_da1(rng), b"\x1b[", b"junk", b"\x1b]", b"\x1b]10;", b"rgb:"]))
            s = mutate(b"".join(parts))
            yield Case(f"findall {hx(s)}", {"op": "findall", "s": s.hex()}, "re-findall", bool(s))
        elif which == "xtversion":
            name, paren = rng.choice(NAMES)
            ver = rng.choice([rnd_version(rng, name), "1\x072", "\x07", "a\x07", "\x07\x07", "x" * 3, "1.0\x07\x07"])
            s = mutate(xt_reply(name, ver, rng.random() < 0.5, rng.choice([ST, BEL, b""])) + rng.choice([b"", b"\x1b[", b"\x07", b")", b"\x1b\\", b"x\x07"]))
            yield Case(f"xtversion {hx(s)}", {"op": "xtversion", "s": s.hex()}, "re-xtversion", True)
        elif which == "winops":
            n = rng.choice([4, 6])
            s = mutate(b"\x1b[%d;%d;%dt" % (rng.choice([4, 6, 8]), rng.randrange(2000), rng.randrange(2000)) + rng.choice([b"", b"\x1b[?6c"]))
            yield Case(f"winops {48 + n} {hx(s)}", {"op": "winops", "n": n, "s": s.hex()}, "re-winops", True)
        elif which == "kittyresp":
            s = mutate(b"\x1b_Gi=%d" % rng.choice([31, 1, 310]) + rng.choice([b"", b",I=3", b",I=", b",I=3,"]) + b";"
                       + rng.choice([b"OK", b"E\x1bX", b"\x1b", b"\x1b\\", b"a\nb", b"ENOENT:x"]) + rng.choice([ST, ST, b"\x1b", b""]) + rng.choice([b"", b"\x1b[?6c", ST]))
            yield Case(f"kittyresp {hx(s)}", {"op": "kittyresp", "s": s.hex()}, "re-kitty", True)
        elif which == "pyint":
            s = mutate(rng.choice([b"0", b"20", b"007", b"-3", b"+4", b" 5 ", b"1_000", b"\t6\n", b"\x1c7\x1f", b"", b"_1", b"1_", b"1__2", b"- 1", b"12a"]))
            s = bytes(c for c in s if c < 128)
            yield Case(f"pyint {hx(s)}", {"op": "pyint", "s": s.hex()}, "pyint", True)
        elif which == "vtuple":
            s = mutate(rng.choice([b"0.20.0", b"22.04.0", b"1", b"0.19.3", b"1..2", b".", b"3.4.19", b"0.20.0-dev", b" 1.2 "]))
            s = bytes(c for c in s if c < 128)
            yield Case(f"vtuple {hx(s)}", {"op": "vtuple", "s": s.hex()}, "vtuple", True)
        else:
            a = [rng.choice([0, 1, 19, 20, 21, 22, 4, -1]) for _ in range(rng.randrange(0, 5))]
            b = rng.choice([[0, 20, 0], [22, 4, 0], [rng.choice([0, 20, 22]) for _ in range(rng.randrange(0, 4))]])
            yield Case(f"lexge {len(a)} {' '.join(map(str, a))} {len(b)} {' '.join(map(str, b))}".replace("  ", " ").strip(),
                       {"op": "lexge", "a": a, "b": b}, "lexge", True)

    # -- implementation: the real code on the virtual tty -------------------------------
    def impl(self, case: Case) -> str:
        d = case.data
        op = d["op"]
        try:
            return getattr(self, "run_" + op)(d)
        except HarnessHang as e:
            return "err blocked" if e.kind == "blocked" else "err hang" + tail()
        finally:
            KMOD.get_terminal_name_version = utils.get_terminal_name_version
            IMOD.get_terminal_name_version = utils.get_terminal_name_version

    def _setup(self, d, swap=False):
        vt = fresh(T=d.get("T", 100), enabled=d.get("enabled", True), swap=swap)
        vt.load_stream([tuple(x) for x in d.get("w", [])])
        if "term" in d:
            vt.responder = terminal(d["term"])
        elif "bursts" in d:
            bs = [(g, bytes.fromhex(b)) for g, b in d["bursts"]]
            vt.responder = lambda req: bs
        return vt

    def run_read(self, d):
        self._setup(d)
        r = utils.read_tty(more_of(d["more"]), d["T"])
        return "ok " + hx(r) + tail()

    def run_readtty(self, d):
        self._setup(d)
        r = utils.read_tty(more_of(d["more"]), d["T"], d["min"], echo=d["echo"])
        return "ok " + hx(r) + tail()

    def run_polls(self, d):
        vt = self._setup(d)
        utils.read_tty(more_of(d["more"]), d["T"])
        return f"ok {vt.selects}"

    def run_avail(self, d):
        self._setup(d)
        r = utils.read_tty()
        return "ok " + hx(r) + " " + f_stream(VTERM.stream())

    def run_merge(self, d):
        vt = self._setup({"w": d["a"]})
        # what the terminal schedules on a write while `a` is under way
        bursts, cur = [], None
        for g, b in d["b"]:
            if cur is not None and g == 0:
                cur[1].append(b)
            else:
                cur = [g, [b]]
                bursts.append(cur)
        vt.responder = lambda req: [(g, bytes(bs)) for g, bs in bursts]
        utils.write_tty(b"?")
        return "ok " + f_stream(vt.stream())

    def run_bursts(self, d):
        vt = fresh()
        vt.schedule([(g, bytes.fromhex(x)) for g, x in d["bursts"]])
        return "ok " + f_stream(vt.stream())

    def run_query(self, d):
        self._setup(d)
        r = utils.query_terminal(b"\x1b[c", more_of(d["more"]))
        return "ok " + f_ob(r) + tail()

    def _guard(self, fn, fmt):
        try:
            r = fn()
        except (ValueError, ZeroDivisionError, AttributeError) as e:
            return f"err {type(e).__name__}" + tail()
        return "ok " + fmt(r) + tail()

    def run_colors(self, d):
        self._setup(d)
        return self._guard(lambda: utils.get_fg_bg_colors(), lambda r: f_rgb(r[0]) + " " + f_rgb(r[1]))

    def run_namever(self, d):
        vt = self._setup(d)
        env = d["env"]
        if env[0] is not None:
            vt.environ["TERM_PROGRAM"] = env[0]
        if env[1] is not None:
            vt.environ["TERM_PROGRAM_VERSION"] = env[1]
        return self._guard(lambda: utils.get_terminal_name_version(), lambda r: f_ob(r[0]) + " " + f_ob(r[1]))

    def run_nameverq(self, d):
        vt = self._setup(d)
        env = d["env"]
        if env[0] is not None:
            vt.environ["TERM_PROGRAM"] = env[0]
        if env[1] is not None:
            vt.environ["TERM_PROGRAM_VERSION"] = env[1]
        try:
            utils.get_terminal_name_version()
        except Exception:  # noqa: BLE001 — whatever it returns or raises: only what it leaves on the tty counts here
            pass
        return "ok" + tail()

    def run_cellsize(self, d):
        vt = self._setup(d, swap=d["swap"])
        vt.size = (d["cols"], d["rows"])
        vt.ioctl = None if d["ioctl"] is None else tuple(d["ioctl"])
        if d["termux"]:
            vt.environ["SHELL"] = "/data/data/com.termux/files/usr/bin/bash"
        return self._guard(lambda: utils.get_cell_size(), lambda r: "none" if r is None else f"some {r[0]} {r[1]}")

    def run_kitty(self, d):
        self._setup(d)
        nv = (d["name"], d["ver"])
        KMOD.get_terminal_name_version = lambda: nv
        return self._guard(lambda: KittyImage.is_supported(), f_bool)

    def run_iterm(self, d):
        fresh()
        nv = (d["name"], d["ver"])
        IMOD.get_terminal_name_version = lambda: nv
        try:
            return "ok " + f_bool(ITerm2Image.is_supported())
        except (ValueError, AttributeError) as e:
            return f"err {type(e).__name__}"

    def run_auto(self, d):
        vt = self._setup(d)
        env = d["env"]
        if env[0] is not None:
            vt.environ["TERM_PROGRAM"] = env[0]
        if env[1] is not None:
            vt.environ["TERM_PROGRAM_VERSION"] = env[1]
        d.pop("_obs", None)
        with real_env(d.get("TERM", "xterm-256color"), d.get("COLORTERM")):
            BlockImage._supported = None if "TERM" in d else d["block"]
            try:
                cls = IMG.auto_image_class()
            except (ValueError, ZeroDivisionError, AttributeError) as e:
                return f"err {type(e).__name__}" + tail()
            t = tail()
            # what each style class had decided when the selection returned (None = never asked)
            d["_obs"] = {"sup": {STYLE_NAME[c.__name__]: c._supported for c in IMG._styles},
                         "order": [STYLE_NAME[c.__name__] for c in IMG._styles], "result": repr(cls)}
            if cls is None:
                return "ok none" + t
            if cls not in (KittyImage, ITerm2Image, BlockImage):
                return "err NotAStyle" + t
            try:
                img = IMG.AutoImage(PIL_1x1)
                good = type(img) is cls
            except HarnessHang:
                raise
            except Exception as e:  # noqa: BLE001 — AutoImage() must give an instance of the selected class
                d["_obs"]["autoimage"] = f"{type(e).__name__}: {e}"
                return "err AutoImage" + t
            if not good:
                d["_obs"]["autoimage"] = f"instance of {type(img).__name__}"
                return "err AutoImage" + t
            return "ok some " + STYLE_NAME[cls.__name__] + t

    def run_autoclass(self, d):
        fresh()
        classes = {"kitty": KittyImage, "iterm2": ITerm2Image, "block": BlockImage}
        for k, s in zip(("kitty", "iterm2", "block"), d["sup"]):
            classes[k]._supported = s
        saved = IMG._styles
        IMG._styles = tuple(classes[s] for s in d["styles"])
        try:
            return "ok some " + STYLE_NAME[IMG.auto_image_class().__name__]
        finally:
            IMG._styles = saved
            fresh()

    def run_xparse(self, d):
        try:
            return "ok %d %d %d" % C.x_parse_color("rgb:" + d["body"])
        except (ValueError, ZeroDivisionError) as e:
            return f"err {type(e).__name__}"

    def run_findall(self, d):
        s = bytes.fromhex(d["s"]).decode("latin-1")
        ms = C.RGB_SPEC_re.findall(s)
        return "ok " + " ".join([str(len(ms))] + [f"{hx(c.encode('latin-1'))} {hx(sp.partition(':')[2].encode('latin-1'))}" for c, sp in ms])

    def run_xtversion(self, d):
        m = C.XTVERSION_re.match(bytes.fromhex(d["s"]).decode("latin-1"))
        return "ok " + ("none" if not m else f"some {hx(m.group(1).encode('latin-1'))} {hx(m.group(2).encode('latin-1'))}")

    def run_winops(self, d):
        pat = {4: C.TEXT_AREA_SIZE_PX_re, 6: C.CELL_SIZE_PX_re}[d["n"]]
        m = pat.match(bytes.fromhex(d["s"]).decode("latin-1"))
        return "ok " + ("none" if not m else "some %d %d" % tuple(map(int, m.groups())))

    def run_kittyresp(self, d):
        m = C.KITTY_RESPONSE_re.match(bytes.fromhex(d["s"]).decode("latin-1"))
        return "ok " + ("none" if not m else f"some {hx(m['id'].encode('latin-1'))} {hx(m['message'].encode('latin-1'))}")

    def run_pyint(self, d):
        try:
            return "ok some %d" % int(bytes.fromhex(d["s"]).decode("ascii"))
        except ValueError:
            return "ok none"

    def run_vtuple(self, d):
        try:
            t = tuple(map(int, bytes.fromhex(d["s"]).decode("ascii").split(".")))
        except ValueError:
            return "ok none"
        return "ok some " + " ".join([str(len(t))] + [str(x) for x in t])

    def run_lexge(self, d):
        return "ok " + f_bool(tuple(d["a"]) >= tuple(d["b"]))

    # -- oracle: the property stated directly on what the real code returned --------------
    def oracle(self, case: Case, impl_result: str):
        d = case.data
        op = d["op"]
        if impl_result.startswith("err hang"):
            # "no reply -> the documented defaults within the timeout instead of blocking"
            toks = impl_result.split()
            now = toks[toks.index("@") + 1] if "@" in toks else "?"
            if "term" in d:
                detail = "+".join(sorted(k for k, v in d["term"]["replies"].items() if v)) or "silent"
            else:
                detail = "-".join(str(x) for x in d.get("more", [])) + ("/silent" if not d.get("w") and not d.get("bursts") else "")
            return Failure(f"blocks/{op}/{detail}", f"no terminating reply: {op} is still polling after {now} ticks of virtual "
                           f"time although the timeout is {d.get('T')} (it must give up and return the documented default)")
        if op == "xparse":
            return oracle_xparse(d["body"], impl_result) if d.get("conformant") else None
        if op not in ("colors", "namever", "nameverq", "cellsize", "kitty", "auto"):
            return None
        f = oracle_auto_style(d, impl_result) if op == "auto" else None
        f = f or oracle_call(d, impl_result)
        if f is not None:
            f.what += (f" [timeout {d['T']} ticks configured through set_query_timeout(); library default {DEFAULT_TICKS} ticks; "
                       f"every reply of a conformant terminal arrives before the configured timeout]")
        return f

    # -- targeted failing-input search ---------------------------------------------------
    def search(self, rng, tier, reasons):
        out = []
        # 1. every digit-count pattern, extremes and a middle value, through x_parse_color and the whole colour query
        for pat in itertools.product([1, 2, 3, 4], repeat=3):
            for fill in ("f", "0", "8"):
                comps = [fill * n for n in pat]
                body = "/".join(comps)
                c = Case(f"xparse {hx(body.encode())}", {"op": "xparse", "body": body, "conformant": True}, "search")
                f = oracle_xparse(body, self.impl(c))
                if f:
                    f.case = c
                    out.append(f)
                    break
            if len(out) >= 3:
                return out
        # 2. whole calls against conformant terminals under unit splits and delays
        for _ in range(3000 if tier == "quick" else 30000):
            for g in (self.gen_colors, self.gen_namever, self.gen_cellsize, self.gen_kitty, self.gen_auto):
                for c in g(rng):
                    if c.data.get("conformant"):
                        f = self.oracle(c, self.impl(c))
                        if f:
                            f.case = c
                            out.append(f)
                            if len(out) >= 3:
                                return out
        return out

    def extra_checks(self, rng, tier, ev):
        if tier != "thorough":
            return []
        return pty_tier(rng, ev)


def ofbursts_py(bursts):
    out, carry = [], 0
    for g, bs in bursts:
        if not bs:
            carry += g
            continue
        out.append((carry + g, bs[0]))
        out += [(0, b) for b in bs[1:]]
        carry = 0
    return out


# --------------------------------------------------------------------------------------
# oracles (independent of the Lean model)


def scale255(comp: str) -> int:
    """XParseColor: an n-digit hex value is a fraction of its own full scale 16^n - 1"""
    return int(comp, 16) * 255 // (16 ** len(comp) - 1)


def oracle_xparse(body: str, res: str):
    comps = body.split("/")
    want = tuple(scale255(c) for c in comps)
    key = "xparse/digits=" + "-".join(str(len(c)) for c in comps)
    if not res.startswith("ok "):
        return Failure(key, f"x_parse_color('rgb:{body}') raised: {res}")
    got = tuple(int(x) for x in res.split()[1:4])
    if any(not 0 <= v <= 255 for v in got):
        return Failure(key, f"x_parse_color('rgb:{body}') = {got}: component outside 0-255 (want {want})")
    if got != want:
        return Failure(key, f"x_parse_color('rgb:{body}') = {got}, want {want}")
    return None


def split_tail(res: str):
    """'<ok|err> <value…> @ <dur> <n> <g b>…' → (status, value tokens, dur, leftover stream length)"""
    toks = res.split()
    at = toks.index("@")
    dur = float(toks[at + 1])  # an integer number of ticks unless the code under test computes odd timeouts
    return toks[0], toks[1:at], int(dur) if dur.is_integer() else dur, int(toks[at + 2])


def oracle_call(d, res: str):
    """colours / name+version / cell size / kitty / auto class against a conformant terminal:
    the values the terminal sent, nothing left unread, never longer than the timeout per query"""
    op, T, en = d["op"], d["T"], d["enabled"]
    status, val, dur, left = split_tail(res)
    nq = 2 if op == "auto" else 1
    where = f"{op}/" + ("+".join(sorted(k for k, v in d["term"]["replies"].items() if v)) or "silent") + ("" if en else "/disabled")
    if dur > nq * T:
        return Failure(f"blocks/{where}", f"{op} spent {dur} ticks, timeout is {T} per query")
    if not en and dur != 0:
        return Failure(f"blocks/{where}", f"{op} with queries disabled spent {dur} ticks")
    if not d.get("conformant"):
        return None
    if left and en and not d["w"]:
        return Failure(f"{where}/leftover", f"{left} reply bytes remain unread after {op}")
    sem = d["sem"]
    rep = d["term"]["replies"]
    if op == "colors":
        want = []
        for q in ("fg", "bg"):
            if en and q in sem:
                want.append("some %d %d %d" % tuple(scale255(c) for c in sem[q]))
            else:
                want.append("none")
        got = " ".join(val)
        pat = "/".join("-".join(str(len(c)) for c in sem[q]) for q in ("fg", "bg") if q in sem)
        if status != "ok" or got != " ".join(want):
            return Failure(f"colors/digits={pat}", f"get_fg_bg_colors() = {status} {got}, terminal said {' '.join(want)} "
                           f"(replies {[bytes.fromhex(rep[q]) for q in ('fg', 'bg') if rep.get(q)]})")
    elif op == "namever":
        if en and "ver" in sem:
            want = f"some {hx(sem['ver'][0].lower().encode())} some {hx(sem['ver'][1].encode())}"
        else:
            e = d["env"]
            want = f"{f_ob(None if e[0] is None else e[0].lower())} {f_ob(e[1])}"
        if status != "ok" or " ".join(val) != want:
            return Failure(f"{where}/value", f"get_terminal_name_version() = {status} {' '.join(val)}, want {want}")
    elif op == "cellsize":
        cols, rows, io, swap, termux = d["cols"], d["rows"], d["ioctl"], d["swap"], d["termux"]
        if cols == 0 or rows == 0:
            return None  # a terminal of zero columns or lines: no documented rule
        area = None
        cell = None
        if io and io[0] and io[1]:
            area = tuple(io)
        elif en and "cell" in sem:
            cell = tuple(sem["cell"])
        elif en and "area" in sem:
            area = (sem["area"][0], sem["area"][1] * (2 if termux else 1))
        if area is not None:
            if swap:
                area = area[::-1]
            cell = (area[0] // cols, area[1] // rows)
        want = "none" if cell is None or 0 in cell else f"some {cell[0]} {cell[1]}"
        if status != "ok" or " ".join(val) != want:
            return Failure(f"{where}/value", f"get_cell_size() = {status} {' '.join(val)}, want {want} ({d['sem']}, ioctl={io}, swap={swap})")
    elif op == "kitty":
        want = en and kitty_rule(sem["name"], sem["ver"], sem.get("reply"))
        if want is None:
            return None
        if status != "ok" or val != [f_bool(want)]:
            return Failure(f"{where}/value", f"KittyImage.is_supported() = {status} {val}, rule says {want} for {sem}")
    elif op == "auto":
        s = sem
        name = s["name"].lower() if (en and s["sup"]["ver"]) else (d["env"][0].lower() if d["env"][0] is not None else None)
        ver = s["ver"] if (en and s["sup"]["ver"]) else d["env"][1]
        reply = None
        if en and rep.get("kitty"):
            m = re.fullmatch(rb"\x1b_Gi=(\d+);(.*)\x1b\\", bytes.fromhex(rep["kitty"]))
            reply = [m.group(1).decode(), "", m.group(2).decode()]
        k = kitty_rule(name, ver, reply) if en else False
        i = iterm_rule(name, ver)
        if k is None or i is None:
            return None
        want = "kitty" if k else "iterm2" if i else "block"
        if status != "ok" or val != ["some", want]:
            return Failure(f"auto-style/{want}/{where}", f"auto_image_class() = {status} {val}, want {want} for {name} {ver} reply={reply} "
                           f"TERM={d.get('TERM')} COLORTERM={d.get('COLORTERM')}")
    return None


def oracle_auto_style(d, res: str):
    """automatic selection, for EVERY terminal and environment: the result is one of the style classes - the first
    one in the documented order (kitty, iterm2, block) that reports support, else BlockImage - and AutoImage() gives an
    instance of it"""
    obs = d.get("_obs")
    if obs is None or res.split()[:2] in (["err", "AttributeError"], ["err", "ValueError"]):
        return None
    sup, env = obs["sup"], f"TERM={d.get('TERM')} COLORTERM={d.get('COLORTERM')}"
    doc = ["kitty", "iterm2", "block"]
    first = next((s for s in doc if sup.get(s) is True), "block")
    got = res.split()[1:3]
    if got != ["some", first]:
        what = "no style class at all" if got[:1] == ["none"] or res.startswith("err NotAStyle") else " ".join(got)
        if res.startswith("err AutoImage"):
            what = f"AutoImage() failed: {obs.get('autoimage')}"
        return Failure(f"auto-style/{first}/" + ",".join(f"{k}={sup.get(k)}" for k in doc),
                       f"auto_image_class() returned {obs['result']} ({what}); the styles reported support {sup} ({env}): "
                       f"automatic selection must give {first} (kitty, then iterm2, then block; block when none is supported)")
    return None


def kitty_rule(name, ver, reply):
    """documented rule; None = outside what the rule speaks about (odd version strings)"""
    if name == "iterm2" or reply is None:
        return False
    if reply[1] not in ("", ",I=7"):
        return None
    if reply[0] != "31" or reply[2] != "OK":
        return False
    if name == "konsole":
        return True
    if name == "kitty":
        if not ver:
            return False
        t = vtuple_or_none(ver)
        if t is None:
            return None if re.fullmatch(r"[0-9 ._+\-\n]*", ver) else False
        return t >= (0, 20, 0)
    return False


def iterm_rule(name, ver):
    if name in ("iterm2", "wezterm"):
        return True
    if name == "konsole":
        if ver is None:
            return None
        t = vtuple_or_none(ver)
        if t is None:
            return None if re.fullmatch(r"[0-9 ._+\-\n]*", ver) else False
        return t >= (22, 4, 0)
    return False


# --------------------------------------------------------------------------------------
# thorough tier: a real pty with a responder thread


def pty_tier(rng, ev):
    import pty
    import signal
    import select as _select
    import threading
    import time
    import importlib

    fails = []
    # restore the real modules in utils
    import fcntl as _fcntl
    from select import select as real_select

    master, slave = pty.openpty()
    import struct
    _fcntl.ioctl(slave, _termios.TIOCSWINSZ, struct.pack("HHHH", 30, 80, 0, 0))  # 80x30, no pixel size
    saved = (utils.os, utils.termios, utils.select, utils.fcntl, utils.monotonic, utils._tty_fd)
    utils.os, utils.termios, utils.select, utils.fcntl, utils.monotonic = _real_os, _termios, real_select, _fcntl, time.monotonic
    utils._tty_fd = slave
    term_image.DEFAULT_QUERY_TIMEOUT = REAL_DEFAULT_TIMEOUT  # real seconds in this tier
    stop = threading.Event()
    cfg = {"term": None}

    def responder():
        buf = b""
        while not stop.is_set():
            r, _, _ = _select.select([master], [], [], 0.05)
            if not r:
                continue
            try:
                data = _real_os.read(master, 4096)
            except OSError:
                return
            buf += data
            term = cfg["term"]
            if term is None:
                continue
            qs = asked(buf)
            buf = b""
            for q in qs:
                rep = term["replies"].get(q)
                if rep:
                    if term["delay"]:
                        time.sleep(term["delay"])
                    _real_os.write(master, bytes.fromhex(rep))

    th = threading.Thread(target=responder, daemon=True)
    th.start()
    n = 0
    try:
        T = 0.5
        for it in range(80):
            comps_fg = [rnd_comp(rng) for _ in range(3)]
            comps_bg = [rnd_comp(rng) for _ in range(3)]
            name, paren = rng.choice(NAMES)
            ver = rnd_version(rng, name)
            replies = {"fg": color_reply(10, comps_fg, rng.choice([ST, BEL])).hex(), "bg": color_reply(11, comps_bg, rng.choice([ST, BEL])).hex(),
                       "ver": xt_reply(name, ver, paren, ST).hex(), "da1": rnd_da1(rng).hex(),
                       "cell": (b"\x1b[6;%d;%dt" % (17, 8)).hex()}
            for q in ("fg", "bg", "ver", "cell"):
                if rng.random() < 0.2:
                    replies[q] = None
            silent = it % 10 == 9  # a terminal that answers nothing at all
            if silent:
                replies = {q: None for q in replies}
            elif it % 10 == 4:  # answers everything but the DA1 sentinel
                replies["da1"] = None
            cfg["term"] = {"replies": replies, "delay": rng.choice([0, 0, T / 50, T / 10])}
            term_image.set_query_timeout(T)
            utils._queries_enabled = True
            utils._cell_size_cache[:] = [0] * 4
            utils.get_fg_bg_colors._invalidate_cache()
            utils.get_terminal_name_version._invalidate_cache()
            t0 = time.monotonic()
            # per-session wall-clock watchdog: a query that does not come back is interrupted, not waited for
            def _alarm(signum, frame):
                raise HarnessHang("hang", "wall-clock watchdog")
            old_handler = signal.signal(signal.SIGALRM, _alarm)
            signal.setitimer(signal.ITIMER_REAL, 3 * T + 4.0)
            try:
                colors = utils.get_fg_bg_colors()
                nv = utils.get_terminal_name_version()
                cs = utils.get_cell_size()
            except HarnessHang:
                fails.append(Failure("blocks/pty/" + ("+".join(sorted(k for k, v in replies.items() if v)) or "silent"),
                                     f"real pty: no terminating reply: the queries are still blocked after {time.monotonic() - t0:.1f}s "
                                     f"although the timeout is {T}s per query"))
                break
            finally:
                signal.setitimer(signal.ITIMER_REAL, 0)
                signal.signal(signal.SIGALRM, old_handler)
            el = time.monotonic() - t0
            time.sleep(0.02)
            left = utils.read_tty() or b""
            n += 1
            want_c = tuple(tuple(scale255(c) for c in cc) if replies[q] else None for q, cc in (("fg", comps_fg), ("bg", comps_bg)))
            if colors != want_c:
                fails.append(Failure("pty/colors/digits=" + "-".join(str(len(c)) for c in comps_fg + comps_bg),
                                     f"real pty: get_fg_bg_colors() = {colors}, terminal said {want_c}"))
            want_nv = (name.lower(), ver) if replies["ver"] else (os.environ.get("TERM_PROGRAM"), os.environ.get("TERM_PROGRAM_VERSION"))
            if want_nv[0] is not None:
                want_nv = (want_nv[0].lower(), want_nv[1])
            if nv != want_nv:
                fails.append(Failure("pty/namever", f"real pty: get_terminal_name_version() = {nv}, want {want_nv}"))
            want_cs = (8, 17) if replies["cell"] else None
            if (None if cs is None else tuple(cs)) != want_cs:
                fails.append(Failure("pty/cellsize", f"real pty: get_cell_size() = {cs}, want {want_cs}"))
            if left:
                fails.append(Failure("pty/leftover", f"real pty: {left!r} left unread"))
            if el > 3 * T + 1.0:
                fails.append(Failure("pty/blocks", f"real pty: three queries took {el:.2f}s, timeout {T}s"))
    finally:
        stop.set()
        utils.os, utils.termios, utils.select, utils.fcntl, utils.monotonic, utils._tty_fd = saved
        term_image.DEFAULT_QUERY_TIMEOUT = DEFAULT_TICKS
        _real_os.close(master)
        _real_os.close(slave)
        fresh()
    ev["coverage"]["pty_sessions"] = n
    return fails[:5]


install()

if __name__ == "__main__":
    fw.main(C12)
