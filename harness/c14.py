#!/venv/bin/python
"""C14 — terminal access is serialised across threads and processes (DESIGN.md §5 C14).

Tie:
  * translator — the op sequences of `lock_tty_wrapper` and `_process_start_wrapper` (read from the
    bytecode of the live functions), the class whose `start`/`run` are wrapped, the ways a child
    adopts the lock (probed on the live code) and the list of `lock_tty` users are regenerated into
    lean/TIV/C14/Generated.lean; `TIV.C14.generated_shape` / `generated_users` mention them.
  * correspondence — op `sched`: a schedule (thread ids × actions, chosen from the enabled steps of
    the model plus some disabled ones) is forced on the real wrappers running in real threads in a
    worker process whose stdio is a pty (harness/c14_worker.py); the event trace is compared with
    the Lean model's, step by step.
  * oracle — never two threads inside a synchronized probe, every read returns the reply to the
    reader's own query, a nested call never blocks; plus real `multiprocessing` runs
    (harness/c14_mp.py) with enter/exit stamps in shared memory.
"""
from __future__ import annotations

import json
import os
import pty
import random
import subprocess
import sys
import time

sys.path.insert(0, os.path.dirname(os.path.abspath(__file__)))
from common import framework as fw  # noqa: E402
from common.framework import Case, Failure, Property  # noqa: E402

HERE = os.path.dirname(os.path.abspath(__file__))
PY = "/venv/bin/python"


def lean_str(s: str) -> str:
    return '"' + s.replace("\\", "\\\\").replace('"', '\\"') + '"'


def lean_list(xs) -> str:
    return "[" + ", ".join(lean_str(x) for x in xs) + "]"


# ------------------------------------------------------------------------------------------
# worker on a pty


class Worker:
    def __init__(self):
        self.m, s = pty.openpty()
        r1, w1 = os.pipe()
        r2, w2 = os.pipe()
        env = dict(os.environ)
        env["VERIF_REPO"] = str(fw.REPO)
        self.p = subprocess.Popen([PY, os.path.join(HERE, "c14_worker.py"), str(r1), str(w2)],
                                  stdin=s, stdout=s, stderr=s, pass_fds=(r1, w2), env=env)
        os.close(s)
        os.close(r1)
        os.close(w2)
        self.out = os.fdopen(w1, "w")
        self.inp = os.fdopen(r2, "r")
        os.set_blocking(self.m, False)

    def call(self, req, timeout=60):
        import select
        self.out.write(json.dumps(req) + "\n")
        self.out.flush()
        t0 = time.time()
        while True:
            r, _, _ = select.select([self.inp], [], [], 1.0)
            try:  # drain whatever the worker printed to the pty (non-blocking)
                os.read(self.m, 65536)
            except OSError:
                pass
            if r:
                line = self.inp.readline()
                if not line:
                    raise RuntimeError(f"worker died (exit {self.p.poll()})")
                return json.loads(line)
            if time.time() - t0 > timeout:
                self.close()
                raise TimeoutError("worker timeout")
            if self.p.poll() is not None:
                raise RuntimeError(f"worker exited {self.p.returncode}")

    def close(self):
        try:
            self.p.kill()
        except Exception:
            pass


def run_on_pty(args, timeout):
    """Run a python script with stdio on a pty slave; return (rc, output)."""
    m, s = pty.openpty()
    env = dict(os.environ)
    env["VERIF_REPO"] = str(fw.REPO)
    p = subprocess.Popen([PY] + args, stdin=s, stdout=s, stderr=s, env=env, start_new_session=True)
    os.close(s)
    buf = b""
    t0 = time.time()
    import select
    while True:
        r, _, _ = select.select([m], [], [], 0.5)
        if r:
            try:
                d = os.read(m, 65536)
            except OSError:
                d = b""
            if d:
                buf += d
            elif p.poll() is not None:
                break
        elif p.poll() is not None:
            break
        if time.time() - t0 > timeout:
            try:
                os.killpg(p.pid, 9)
            except Exception:
                p.kill()
            os.close(m)
            return None, buf.decode(errors="replace")
    os.close(m)
    return p.returncode, buf.decode(errors="replace")


# ------------------------------------------------------------------------------------------
# Python twin of the model — used ONLY to pick enabled steps while generating schedules
# (the expected traces come from the Lean driver, never from here)


class Twin:
    def __init__(self, procs):
        self.procs = procs
        self.thr = [None] * len(procs)  # None | ["sync", [frames innermost first]] | ["start", pc, l, pass, child]
        self.cur = {}
        self.up = {0}
        self.lk = {}
        self.pend, self.repl = [], []
        self.outq = {}
        self.nextq = 0
        self.swapped = False
        self.feat = set()

    def curp(self, p):
        return self.cur.get(p, ("T", p))

    def can_acq(self, L, t):
        o = self.lk.get(L)
        return o is None or o[0] == t

    def acq(self, L, t):
        o = self.lk.get(L)
        self.lk[L] = [t, (o[1] if o else 0) + 1]

    def rel(self, L, t):
        o = self.lk[L]
        o[1] -= 1
        if o[1] == 0:
            del self.lk[L]

    def enabled(self, t, a):
        """a: ('c',) ('s', child) ('a',) ('w',) ('d',) — is the step enabled?"""
        if self.procs[t] not in self.up:
            return False
        st = self.thr[t]
        if a[0] == "c":
            return st is None or (st[0] == "sync" and st[1][0]["pc"] == "cs")
        if a[0] == "s":
            return st is None
        if a[0] == "f":
            return st is not None and st[0] == "start" and st[1] == "fk"
        if a[0] == "e":
            return (st is not None and st[0] == "sync" and st[1][0]["pc"] == "cs"
                    and not (len(st[1]) == 1 and t in self.outq))
        if a[0] == "w":
            return st is not None and st[0] == "sync" and st[1][0]["pc"] == "cs" and t not in self.outq
        if a[0] == "d":
            return (st is not None and st[0] == "sync" and st[1][0]["pc"] == "cs" and t in self.outq
                    and bool(self.repl))
        if st is None:
            return False
        if st[0] == "sync":
            f = st[1][0]
            pc = f["pc"]
            if pc == "aq1":
                return self.can_acq(f["l1"], t)
            if pc == "aq2":
                return self.can_acq(f["l2"], t)
            if pc == "cs":
                return not (len(st[1]) == 1 and t in self.outq)
            return True
        _, pc, l, pas, child = st
        if pc == "aq":
            return self.can_acq(l, t)
        if pc == "fk":
            return child not in self.up
        return True

    def step(self, t, a):
        p = self.procs[t]
        st = self.thr[t]
        if a[0] == "c":
            fr = {"pc": "ld1", "l1": None, "l2": None}
            if st is None:
                self.thr[t] = ["sync", [fr]]
            else:
                st[1].insert(0, fr)
                self.feat.add("nested")
            return
        if a[0] == "s":
            self.thr[t] = ["start", "ld", None, None, a[1]]
            return
        if a[0] == "f":
            self.thr[t] = None
            self.feat.add("failed-start")
            return
        if a[0] == "e":
            st[1][0]["pc"] = "rl2"
            self.feat.add("raise")
            return
        if a[0] == "w":
            self.pend += [(self.nextq, 0), (self.nextq, 1)]
            self.outq[t] = [self.nextq, 2]
            self.nextq += 1
            self.feat.add("query")
            if len(st[1]) > 1:
                self.feat.add("compound")
            return
        if a[0] == "d":
            self.repl.pop(0)
            self.outq[t][1] -= 1
            if self.outq[t][1] == 0:
                del self.outq[t]
            return
        if st[0] == "sync":
            f = st[1][0]
            pc = f["pc"]
            if pc == "ld1":
                f["l1"] = self.curp(p)
                f["pc"] = "aq1"
            elif pc == "aq1":
                self.acq(f["l1"], t)
                f["pc"] = "ld2"
                if f["l1"] != self.curp(p):
                    self.feat.add("stale-first-item")
            elif pc == "ld2":
                f["l2"] = self.curp(p)
                f["pc"] = "aq2"
            elif pc == "aq2":
                self.acq(f["l2"], t)
                f["pc"] = "cs"
                if p != 0:
                    self.feat.add("child-inside")
            elif pc == "cs":
                f["pc"] = "rl2"
            elif pc == "rl2":
                self.rel(f["l2"], t)
                f["pc"] = "rl1"
            else:
                self.rel(f["l1"], t)
                st[1].pop(0)
                if not st[1]:
                    self.thr[t] = None
            return
        _, pc, l, pas, child = st
        if pc == "ld":
            st[2] = self.curp(p)
            st[1] = "aq"
        elif pc == "aq":
            self.acq(l, t)
            st[1] = "chk"
        elif pc == "chk":
            st[1] = "sw" if self.curp(p)[0] == "T" else "rd"
        elif pc == "sw":
            self.cur[p] = ("M", p)
            st[3] = ("M", p)
            st[1] = "rl"
            self.feat.add("swap")
            if any(x is not None and x[0] == "sync" for x in self.thr):
                self.feat.add("swap-racing-calls")
        elif pc == "rd":
            st[3] = self.curp(p)
            st[1] = "rl"
        elif pc == "rl":
            self.rel(l, t)
            st[1] = "fk"
        else:
            self.up.add(child)
            self.cur[child] = pas
            self.thr[t] = None
            self.feat.add("fork")

    def blocked_on_lock(self, t):
        st = self.thr[t]
        if st is None:
            return False
        if st[0] == "sync":
            f = st[1][0]
            return (f["pc"] == "aq1" and not self.can_acq(f["l1"], t)) or (f["pc"] == "aq2" and not self.can_acq(f["l2"], t))
        return st[1] == "aq" and not self.can_acq(st[2], t)


def tok(a, t):
    if a[0] == "s":
        return f"s{t}.{a[1]}"
    return f"{a[0]}{t}"


def gen_schedule(rng: random.Random, tier: str):
    nproc = rng.choice([1, 2, 2, 3])
    n = rng.choice([2, 2, 3, 3, 4, 5, 6]) if tier == "quick" else rng.choice([2, 3, 4, 5, 6, 8])
    procs = [0, 0] + [rng.randrange(nproc) for _ in range(n - 2)]
    if nproc > 1 and 1 not in procs:
        procs[-1] = 1
    tw = Twin(procs)
    length = rng.choice([25, 40, 60, 90]) if tier == "quick" else rng.choice([40, 80, 120, 160])
    steps = []
    last = rng.randrange(n)
    starts = 0
    p_start = rng.choice([0.05, 0.2, 0.4])
    p_bad = rng.choice([0.0, 0.05, 0.15])
    max_depth = rng.choice([1, 2, 3])
    stick = rng.choice([0.3, 0.6, 0.85])
    for _ in range(length):
        if tw.pend and rng.random() < 0.35:
            steps.append("r")
            tw.repl.append(tw.pend.pop(0))
            continue
        if rng.random() < p_bad:
            # a step that is (probably) not enabled: blocked acquisition, wrong action, dormant process
            t = rng.randrange(n)
            blocked = [u for u in range(n) if tw.blocked_on_lock(u)]
            if blocked and rng.random() < 0.7:
                t = rng.choice(blocked)
                a = ("a",)
            else:
                a = rng.choice([("c",), ("a",), ("w",), ("d",), ("s", rng.randrange(1, nproc + 1))])
            steps.append(tok(a, t))
            if tw.enabled(t, a):
                tw.step(t, a)
            else:
                tw.feat.add("disabled-step")
            continue
        t = last if rng.random() < stick else rng.randrange(n)
        st = tw.thr[t]
        cands = []
        if st is None:
            if tw.procs[t] in tw.up:
                cands.append(("c",))
                if starts < 4 and rng.random() < p_start:
                    cands = [("s", rng.randrange(1, nproc + 1))]
        elif st[0] == "sync":
            pc = st[1][0]["pc"]
            cands.append(("a",))
            if pc == "cs":
                if t in tw.outq:
                    # a reply is outstanding: read it (here or in a nested call), maybe return from a
                    # nested activation first — the outermost one cannot return yet
                    cands = [("d",), ("d",)] + ([("a",)] if len(st[1]) > 1 else [])
                elif rng.random() < 0.5:
                    cands.append(("w",))
                if rng.random() < 0.08:
                    cands.append(("e",))
                if len(st[1]) < max_depth and rng.random() < 0.4:
                    cands = [("c",)]
        else:
            cands.append(("a",))
        cands = [a for a in cands if tw.enabled(t, a)]
        if not cands:
            # pick any thread with an enabled step
            order = list(range(n))
            rng.shuffle(order)
            for u in order:
                for a in (("d",), ("a",), ("c",)):
                    if tw.enabled(u, a):
                        t, cands = u, [a]
                        break
                if cands:
                    break
        if not cands:
            if tw.pend:
                steps.append("r")
                tw.repl.append(tw.pend.pop(0))
                continue
            break
        a = rng.choice(cands)
        if a[0] == "s":
            starts += 1
        steps.append(tok(a, t))
        tw.step(t, a)
        last = t
    flav = {str(c): rng.choice(FLAVOURS) for c in range(1, nproc + 1)}
    feat = tw.feat
    if "stale-first-item" in feat:
        kind = "handover-stale-first-item"
    elif "swap-racing-calls" in feat:
        kind = "handover-racing-calls"
    elif "child-inside" in feat:
        kind = "child-process"
    elif "swap" in feat:
        kind = "handover"
    elif "compound" in feat:
        kind = "compound-section"
    elif "nested" in feat:
        kind = "nested"
    else:
        kind = "threads-only"
    line = sched_line(procs, steps, flav)
    return Case(line, {"procs": procs, "steps": steps, "flav": flav}, kind, len(steps) >= 10)


def sched_line(procs, steps, flav, fns=None):
    """`sched n procs… k steps… m flavours…` — the flavours (how child i adopts the lock: run wrapper,
    inherited globals + run wrapper, import-time) are one and the same model step; they are part of
    the line so that a replay is self-contained"""
    fl = [flav[k] for k in sorted(flav, key=int)]
    line = (f"sched {len(procs)} {' '.join(map(str, procs))} {len(steps)} {' '.join(steps)} "
            f"{len(fl)} {' '.join(fl)}").rstrip()
    if fns and any(k != "p" for k in fns):
        # which synchronized function each thread calls at top level: p = probe, i / w / f = a real
        # UrwidImageScreen's get_available_raw_input / write / flush
        line += f" {len(fns)} {' '.join(fns)}"
    return line


def parse_steps(steps):
    out = []
    for s in steps:
        if s == "r":
            out.append(["r"])
        elif s[0] == "s":
            a, b = s[1:].split(".")
            out.append(["s", int(a), int(b)])
        else:
            out.append([s[0], int(s[1:])])
    return out


# how a child comes to life: fresh import + _bootstrap/run, inherited globals (fork) + at-fork hooks +
# _bootstrap/run, late import; `-o`: its Process subclass overrides run() without super().run()
FLAVOURS = ["run", "import", "fork", "run-o", "fork-o", "run-d", "fork-d", "import-d", "fork-o-d"]
ONLINE_SCENARIOS = ("two-first-starts", "raising-bodies", "mix", "urwid-after-start", "late-import-then-start",
                    "failing-start")
ONLINE_QUICK = 360
ONLINE_THOROUGH = 1200
DECO_QUICK = 60
DECO_THOROUGH = 1500
FSCHED_QUICK = 80
FSCHED_THOROUGH = 800
# (start method, multiprocessing.Process | get_context().Process, late import, how the child's code is
#  supplied: target= | subclass overriding run() | … calling super().run(), foreign wrappers on
#  BaseProcess before the import)
MP_QUICK = [("spawn", "ctx", 0, "target", 0), ("spawn", "default", 1, "target", 0),
            ("fork", "default", 0, "run", 0), ("spawn", "default", 0, "run", 0),
            ("spawn", "default", 0, "target", 1), ("spawn", "ctx", 0, "run", 1),
            ("fork", "default", 0, "after", 0),
            ("spawn", "default", 0, "failfirst", 0),
            ("fork", "default", 0, "daemon", 0), ("spawn", "ctx", 0, "daemon", 0), ("spawn", "ctx", 0, "pool", 0),
            ("spawn+fork", "ctx", 0, "target", 0), ("forkserver+fork", "ctx", 0, "target", 0)]
MP_ALL = ([(m, h, lz, "target", 0) for m in ("fork", "spawn", "forkserver") for h in ("default", "ctx") for lz in (0, 1)]
          + [("mixed", "ctx", 0, "target", 0), ("mixed", "ctx", 1, "target", 0)]
          + [(m, h, 0, "run", 0) for m in ("fork", "spawn", "forkserver") for h in ("default", "ctx")]
          + [(m, "default", 1, "run", 0) for m in ("spawn", "forkserver")]
          + [(m, "default", 0, "runsuper", 0) for m in ("fork", "spawn", "forkserver")]
          + [(m, "default", 0, "target", 1) for m in ("fork", "spawn", "forkserver")]
          + [("spawn", "ctx", 0, "run", 1)]
          + [(m, "default", 0, "after", 0) for m in ("fork", "spawn", "forkserver")]
          + [(m, h, 0, "failfirst", 0) for m in ("spawn", "forkserver") for h in ("default", "ctx")]
          + [("fork", "ctx", 0, "after", 0)]
          + [(m, h, 0, "daemon", 0) for m in ("fork", "spawn", "forkserver") for h in ("default", "ctx")]
          + [(m, "ctx", 0, "pool", 0) for m in ("fork", "spawn", "forkserver")]
          + [(m, "ctx", lz, "target", 0) for m in ("spawn+fork", "forkserver+fork") for lz in (0, 1)])


def mp_key(method, how, lazy, style="target", pre=0):
    return (f"mp/{method}/{how}/{'lazy' if lazy else 'eager'}" + ("" if style == "target" else f"/{style}")
            + ("/foreign-wrappers" if pre else ""))


def mp_case(cfg, scale):
    method, how, lazy, style, pre = cfg
    extra = "" if (style == "target" and not pre) else f" {style} {pre}"
    return Case(f"mp {method} {how} {lazy} {scale}{extra}", {"mp": [method, how, lazy, scale, style, pre]},
                "real-mp-" + mp_key(*cfg)[3:].replace("/", "-"), True)


def mp_what(j, method, how, lazy, style="target", pre=0):
    sup = {"target": "children given as target=", "run": "children are Process subclasses overriding run() without super().run()",
           "runsuper": "children are Process subclasses whose run() calls super().run()",
           "daemon": "children are daemonic (daemon=True), the first start is a daemonic one",
           "pool": "two multiprocessing.Pool workers (daemonic processes started by the pool)",
           "failfirst": "the first Process.start() fails (its target cannot be pickled) while the parent's threads are calling",
           "after": "an empty child first, then main thread vs. one child, then two threads — nothing races with a start"}[style]
    return (f"real multiprocessing ({method}, {'get_context().Process' if how == 'ctx' else 'multiprocessing.Process'}, "
            f"term_image imported {'inside the child function' if lazy else 'at module level'}, {sup}"
            + (", BaseProcess.start/run/_bootstrap instrumented with functools.wraps wrappers before the import" if pre else "")
            + f"): {j['overlaps']} of {j['intervals']} synchronized calls overlap another one; first: {j['first']}")


class C14(Property):
    id = "C14"
    lean_props = ["TIV.C14.Props"]
    driver = "drv_c14"
    partial = ("the OS scheduler and the real lock implementations (threading.RLock, multiprocessing.RLock are "
               "assumed to be correct re-entrant locks; fork/spawn/forkserver are exercised for real by the "
               "multiprocessing runs, not by the theorem); the terminal is a FIFO")
    assumptions = [
        "threading.RLock / multiprocessing.RLock are correct re-entrant mutual-exclusion locks",
        "a global load / store of `_tty_lock` is atomic (one bytecode under the GIL)",
        "Process.start() is not called from inside a synchronized call (documented as unsupported)",
        "a child process runs no synchronized call before its Process.run() / its import of term_image.utils",
    ]
    quick_cases = 900
    thorough_cases = 6000
    rule = ("a case is one forced schedule (threads x actions) generated from the PRNG state derived from VERIF_SEED by "
            "simulating the enabled steps; non-trivial = at least 10 steps; distinct by the hash of the request line")

    def __init__(self):
        self._worker = None
        self._facts = None
        self._viol = {}
        self._mp = {}
        self._hangs = 0
        self._gen_errors = []
        self._unconfirmed = []
        self._times = {}
        self._t_start = time.time()

    # -- worker -------------------------------------------------------------------------
    def worker(self):
        if self._worker is None:
            self._worker = Worker()
        return self._worker

    def facts(self):
        if self._facts is None:
            self._facts = self.worker().call({"op": "facts"})
            if "error" in self._facts:
                raise RuntimeError(self._facts["error"])
        return self._facts

    # -- translator ---------------------------------------------------------------------
    def gen_constants(self):
        f = self.facts()
        if f["tty_fd"] == -1:
            raise RuntimeError("worker has no tty: wrappers not installed")
        body = (
            "/-! GENERATED by harness/c14.py from the imported package — do not edit -/\n"
            "namespace TIV.C14.Generated\n"
            f"def syncOps : List String := {lean_list(f['syncOps'])}\n"
            f"def startOps : List String := {lean_list(f['startOps'])}\n"
            f"def wrappedClass : String := {lean_str(f['wrappedClass'])}\n"
            f"def childAdoption : List String := {lean_list(f['childAdoption'])}\n"
            f"def lockTtyUsers : List String := {lean_list(f['lockTtyUsers'])}\n"
            f"def ttyLockSites : List String := {lean_list(f['ttyLockSites'])}\n"
            f"def moduleInitOrder : List String := {lean_list(f['moduleInitOrder'])}\n"
            f"def lockAliases : List String := {lean_list(f['lockAliases'])}\n"
            f"def wrappedMethods : List String := {lean_list(f['wrappedMethods'])}\n"
            f"def atForkHooks : List String := {lean_list(f['atForkHooks'])}\n"
            f"def startCallContext : List String := {lean_list(f['startCallContext'])}\n"
            f"def screenSyncMethods : List String := {lean_list(f['screenSyncMethods'])}\n"
            "end TIV.C14.Generated\n"
        )
        return {"TIV/C14/Generated.lean": body}

    # -- generator ----------------------------------------------------------------------
    def generate(self, rng: random.Random, tier: str):
        # real multiprocessing first: the model's prediction (theorem `mutex`) is "no overlap"
        for cfg in (MP_QUICK if tier == "quick" else MP_ALL):
            yield mp_case(cfg, 1 if tier == "quick" else 2)
        # the racing schedule of Props.raceSched first, in its three child flavours
        race = ("c0 a0 s1.1 a1 a1 a1 a1 a1 a1 c2 a2 a2 a2 a2 a0 a0 a0 c2 a2 a2 a2 a2 w2 r d2 a2 a2 a2 r d2 a2 a2 a2 "
                "a0 a0 a0 a0 a0").split()
        for fl in FLAVOURS:
            yield Case(sched_line([0, 0, 1], race, {"1": fl}),
                       {"procs": [0, 0, 1], "steps": race, "flav": {"1": fl}}, "handover-stale-first-item", True)
        # the REAL multi-step query functions over a virtual FIFO terminal, schedules generated online
        # by the worker from what each real thread is parked at
        nf = FSCHED_QUICK if tier == "quick" else FSCHED_THOROUGH
        for _ in range(nf):
            c = self.gen_fsched(rng, tier)
            if c is not None:
                yield c
        # probe schedules generated ONLINE by the worker from what the real threads can do next (so
        # that exploration follows the real code when it leaves the model), three scenarios; and
        # decorate-call-drop histories of short-lived callables
        no = ONLINE_QUICK if tier == "quick" else ONLINE_THOROUGH
        for k in range(no):
            c = self.gen_online(rng, ONLINE_SCENARIOS[k % len(ONLINE_SCENARIOS)])
            if c is not None:
                yield c
        for _ in range(DECO_QUICK if tier == "quick" else DECO_THOROUGH):
            yield self.gen_deco(rng)
        while True:
            yield gen_schedule(rng, tier)

    def gen_online(self, rng, scen):
        nproc = rng.choice([1, 2, 2])
        fns = None
        force_flav = {}
        if scen == "two-first-starts":
            # threads 0 and 1 of the root issue the FIRST two Process.start() concurrently
            nproc = 2
            procs = [0, 0, 1, 2] + [rng.randrange(3) for _ in range(rng.choice([0, 0, 1]))]
            cfg = {"first": {"0": 1, "1": 2}, "nproc": 2, "p_exc": 0.05}
        elif scen == "urwid-after-start":
            # a real UrwidImageScreen (input poll / write / flush) next to other synchronized calls,
            # in a process whose lock gets re-bound by a Process.start()
            nproc = 1
            procs = [0, 0, 0, 1] + [rng.randrange(2) for _ in range(rng.choice([0, 1]))]
            cfg = {"first": {"0": 1}, "nproc": 1, "p_exc": 0.05, "p_start": 0.0}
            fns = ["p", rng.choice(["i", "i", "w", "f"]), rng.choice(["p", "i", "w"]), rng.choice(["p", "i"])]
            fns += ["p"] * (len(procs) - len(fns))
        elif scen == "failing-start":
            # the root's first Process.start() migrates the lock and then FAILS (half of the time)
            # while other threads call synchronized functions; later starts may succeed
            nproc = 2
            procs = [0, 0, 0] + [rng.choice([0, 1, 2]) for _ in range(rng.choice([0, 1, 2]))]
            cfg = {"first": {"0": 1}, "nproc": 2, "p_exc": 0.05, "p_start": 0.1, "p_fail": 0.7, "hold_fk": True, "lead": 0,
                   "maxdepth": 1}
        elif scen == "late-import-then-start":
            # child 1 adopts the lock at import time (late import) and then starts process 2 itself
            nproc = 2
            procs = [0, 0, 1, 1, 2]
            cfg = {"first": {"0": 1, "2": 2}, "nproc": 2, "p_exc": 0.05, "p_start": 0.0}
            force_flav = {"1": "import"}
        else:
            n = rng.choice([2, 3, 4])
            procs = [0, 0] + [rng.randrange(nproc + 1) for _ in range(n - 2)]
            cfg = {"nproc": nproc, "p_exc": 0.4 if scen == "raising-bodies" else 0.1,
                   "p_start": rng.choice([0.05, 0.2]), "maxdepth": rng.choice([1, 2, 3])}
            if scen == "mix" and rng.random() < 0.5:
                fns = [rng.choice(["p", "p", "i", "w", "f"]) for _ in procs]
        flav = {str(c): rng.choice(FLAVOURS) for c in range(1, nproc + 1)}
        flav.update(force_flav)
        r = self.worker().call({"op": "sgen", "procs": procs, "flav": flav, "seed": rng.randrange(1 << 30),
                                "cfg": cfg, "maxsteps": 120 if scen == "failing-start" else rng.choice([40, 80, 120]),
                                "fns": fns})
        if r.get("hang") or "error" in r:
            # one schedule could not be generated: start a fresh worker and go on; three of them and the
            # run is reported as an infrastructure failure (never a silently smaller run)
            self._hangs += 1
            self._gen_errors.append(str(r.get("error", "hang"))[-300:])
            if self._worker:
                self._worker.close()
            self._worker = None
            if self._hangs >= 3:
                raise RuntimeError("schedule generation failed 3 times: " + " | ".join(self._gen_errors))
            return None
        data = {"procs": procs, "steps": r["steps"], "flav": flav}
        if fns:
            data["fns"] = fns
        return Case(sched_line(procs, r["steps"], flav, fns), data, "online-" + scen, len(r["steps"]) >= 10)

    def gen_deco(self, rng):
        ops = []
        for _ in range(rng.choice([6, 15, 30])):
            i = rng.randrange(3)
            ops += rng.choice([[f"n{i}", f"d{i}", f"c{i}", f"x{i}"], [f"n{i}", f"d{i}", f"c{i}"], [f"d{i}", f"c{i}"],
                               [f"c{i}"], [f"x{i}"], [f"n{i}", f"c{i}"], [f"d{i}", f"d{i}", f"c{i}"]])
        return Case(f"deco {len(ops)} {' '.join(ops)}", {"deco": ops}, "decorate-call-drop", len(ops) >= 6)

    def gen_fsched(self, rng, tier):
        n = rng.choice([2, 2, 3])
        progs = [rng.choice(["nv", "cs", "fb", "nv", "nv+cs", "fb+nv", "cs+fb", "cs+nv"]) for _ in range(n)]
        procs = [0] * n
        r = self.worker().call({"op": "fgen", "procs": procs, "progs": progs, "seed": rng.randrange(1 << 30),
                                "maxsteps": 600})
        if r.get("hang"):
            self._hangs += 1
            self._worker = None
            return None
        if "error" in r:
            raise RuntimeError(r["error"])
        steps = r["steps"]
        line = (f"fsched {n} {' '.join(map(str, procs))} {len(steps)} {' '.join(steps)} {n} {' '.join(progs)}")
        return Case(line, {"procs": procs, "steps": steps, "progs": progs}, "real-query-functions-" + str(n), True)

    # -- implementation -----------------------------------------------------------------
    def impl(self, case: Case) -> str:
        t0 = time.time()
        try:
            return self._impl(case)
        finally:
            k = case.kind.split("-")[0] + ("-" + case.kind.split("-")[1] if case.kind.startswith(("real", "online")) else "")
            self._times[k] = round(self._times.get(k, 0.0) + time.time() - t0, 2)

    def _impl(self, case: Case) -> str:
        d = case.data
        if self._hangs >= 3:
            raise TimeoutError("3 schedules hung already; not trying further ones")
        if "mp" in d:
            method, how, lazy, scale = d["mp"][:4]
            style, pre = (d["mp"] + ["target", 0])[4:6]
            j, err = self.run_mp(method, how, lazy, scale, style, pre)
            if j is None:
                raise RuntimeError(f"real multiprocessing run failed: {err}")
            if j["overlaps"]:
                # a real-runtime overlap counts when it reproduces: the seeded defects overlap in every
                # run (20-30 of 72 calls); a one-off (seen once in ~150 clean runs of the spawn->fork
                # tree: 6 overlaps + a stuck child) is recorded in the evidence, not reported
                j2, _ = self.run_mp(method, how, lazy, scale, style, pre)
                if not (j2 and j2["overlaps"]):
                    self._unconfirmed.append({"case": case.line, "first_run": {k: j.get(k) for k in (
                        "overlaps", "intervals", "expected", "first", "errors", "stuck")}})
                    j = j2 if j2 else j
                    if j2 is None:
                        raise RuntimeError(f"real multiprocessing run failed on repetition: {case.line}")
            self._mp[case.key()] = j
            if not j["overlaps"] and (j["intervals"] != j["expected"] or any(c != 0 for c in j["exitcodes"])):
                raise RuntimeError(f"real multiprocessing run incomplete: {j}")
            return f"ok overlaps={j['overlaps']}"
        if "deco" in d:
            r = self.worker().call({"op": "deco", "ops": d["deco"]})
        elif "progs" in d:
            r = self.worker().call({"op": "fsched", "procs": d["procs"], "steps": parse_steps(d["steps"]),
                                    "progs": d["progs"]})
        else:
            r = self.worker().call({"op": "sched", "procs": d["procs"], "steps": parse_steps(d["steps"]),
                                    "flav": d.get("flav", {}), "fns": d.get("fns")})
        if r.get("hang"):
            self._hangs += 1
            self._worker = None
            raise TimeoutError("schedule hung in the worker")
        if "error" in r:
            raise RuntimeError(r["error"])
        if r["viol"]:
            self._viol[case.key()] = r["viol"]
        if r["errs"]:
            return "err " + ";".join(r["errs"])[:300]
        if "progs" in d and r.get("used") and r["used"] != list(d["steps"]):
            # the schedule was recorded on another version of the code (a replay): its thread order
            # was followed with the actions the current code takes; the run counts as corresponding
            # when the model agrees with THOSE actions
            n = len(d["procs"])
            line2 = (f"fsched {n} {' '.join(map(str, d['procs']))} {len(r['used'])} {' '.join(r['used'])} "
                     f"{n} {' '.join(d['progs'])}")
            m2, m1 = fw.run_driver(self.driver, [line2, case.line])
            if m2 == r["res"]:
                return m1
        return r["res"]

    # -- oracle -------------------------------------------------------------------------
    def oracle(self, case: Case, impl_result: str):
        if "mp" in case.data:
            j = self._mp.get(case.key())
            if j and j["overlaps"]:
                method, how, lazy = case.data["mp"][:3]
                style, pre = (case.data["mp"] + ["target", 0])[4:6]
                return Failure(mp_key(method, how, lazy, style, pre), mp_what(j, method, how, lazy, style, pre), extra=j)
            return None
        v = self._viol.get(case.key())
        if v:
            what = v[0].split(":")[0]
            if "deco" in case.data:
                return Failure(f"deco/{what}/{case.key()}",
                               "; ".join(v[:2]) + f" — history `{' '.join(case.data['deco'])[:300]}` (n=new function, "
                               "d=lock_tty(it), c=call it, x=drop it; slots 0-2)")
            if "progs" in case.data:
                fns = {"nv": "get_terminal_name_version", "fb": "get_fg_bg_colors", "cs": "get_cell_size"}
                progs = [" then ".join(fns[f] + "()" for f in p.split("+")) for p in case.data["progs"]]
                return Failure(f"fsched/{what}/{case.key()}",
                               "; ".join(v[:3]) + " — real threads running " + " | ".join(progs) +
                               f" over a FIFO terminal, forced schedule `{' '.join(case.data['steps'])[:400]}`")
            return Failure(f"sched/{what}/{case.key()}", v[0] + f" — schedule `{case.line[:300]}` flavours {case.data.get('flav')}")
        return None

    # -- real multiprocessing -------------------------------------------------------------
    def run_mp(self, method, how, lazy, scale, style="target", pre=0):
        out = f"/tmp/c14_mp_{os.getpid()}_{method}_{how}_{lazy}_{style}_{pre}.json"
        try:
            os.unlink(out)
        except OSError:
            pass
        rc, txt = run_on_pty([os.path.join(HERE, "c14_mp.py"), method, how, str(lazy), str(scale), out, style, str(pre)], timeout=40 * scale)
        if rc is None:
            return None, "timeout"
        try:
            j = json.load(open(out))
            os.unlink(out)
        except Exception:
            return None, f"rc={rc} {txt[-600:]}"
        return j, ""

    def extra_checks(self, rng, tier, ev):
        ev["coverage"]["real_multiprocessing"] = {
            mp_key(j['method'], j['how'], j['lazy'], j.get('style', 'target'), j.get('pre', 0))[3:]: {k: j[k] for k in ("intervals", "overlaps", "processes", "nested", "lock_type")}
            for j in self._mp.values()}
        ev["coverage"]["worker_facts"] = self._facts
        ev["coverage"]["unconfirmed_real_mp_overlaps"] = self._unconfirmed
        ev["coverage"]["impl_seconds_by_kind"] = self._times
        ev["coverage"]["seconds_until_oracle_phase"] = round(time.time() - self._t_start, 2)
        if self._worker:
            self._worker.close()
        return []

    def search(self, rng, tier, reasons):
        """a tie broke: more real-query-function schedules, every real-multiprocessing configuration,
        then more probe schedules"""
        fails = []
        for k in range(600):
            c = self.gen_online(rng, ONLINE_SCENARIOS[k % len(ONLINE_SCENARIOS)]) if k % 4 else self.gen_deco(rng)
            if c is None:
                continue
            f = self.oracle(c, self.impl(c))
            if f:
                f.case = c
                return [f]
        for _ in range(400):
            c = self.gen_fsched(rng, "quick")
            if c is None:
                continue
            f = self.oracle(c, self.impl(c))
            if f:
                f.case = c
                return [f]
        for cfg in MP_ALL:
            method, how, lazy, style, pre = cfg
            j, err = self.run_mp(method, how, lazy, 1, style, pre)
            if j and j["overlaps"]:
                fails.append(Failure(mp_key(*cfg), mp_what(j, *cfg), case=mp_case(cfg, 1), extra=j))
        if fails:
            return fails
        self._worker = None
        for _ in range(1500):
            c = gen_schedule(rng, "quick")
            r = self.impl(c)
            f = self.oracle(c, r)
            if f:
                f.case = c
                return [f]
        return []


if __name__ == "__main__":
    fw.main(C14)
